package c25

import (
	"fmt"
	"math/big"
	"os"
	"strconv"
	"strings"
	"testing"

	"github.com/dolthub/go-mysql-server/sql"
	"github.com/dolthub/go-mysql-server/vh/internal/fx"
	"github.com/dolthub/go-mysql-server/vh/internal/kf"
	"github.com/dolthub/go-mysql-server/vh/internal/stats"
	"pgregory.net/rapid"
)

// ---------------------------------------------------------------------------------------
// reference (math/big)

func truncRat(r *big.Rat) *big.Int {
	// big.Int.Quo truncates toward zero
	return new(big.Int).Quo(r.Num(), r.Denom())
}

// exact returns the mathematically exact result; null reports that SQL demands NULL
// (a NULL operand, or a zero divisor for / DIV %).
func exact(e expr) (r *big.Rat, null bool) {
	if e.a.val == nil || (e.op != "neg" && e.b.val == nil) {
		return nil, true
	}
	a, b := e.a.val, e.b.val
	switch e.op {
	case "neg":
		return new(big.Rat).Neg(a), false
	case "+":
		return new(big.Rat).Add(a, b), false
	case "-":
		return new(big.Rat).Sub(a, b), false
	case "*":
		return new(big.Rat).Mul(a, b), false
	}
	if b.Sign() == 0 {
		return nil, true
	}
	q := new(big.Rat).Quo(a, b)
	switch e.op {
	case "/":
		return q, false
	case "DIV":
		return new(big.Rat).SetInt(truncRat(q)), false
	case "%":
		// a - b*trunc(a/b): sign of the dividend, |r| < |b|
		t := new(big.Rat).SetInt(truncRat(q))
		return new(big.Rat).Sub(a, t.Mul(t, b)), false
	}
	panic("unknown op " + e.op)
}

func ratInInt(r *big.Rat, lo, hi *big.Int) bool {
	return r.IsInt() && inRange(r.Num(), lo, hi)
}

// intDigits is the number of digits of the integer part of |r| (0 for |r| < 1).
func intDigits(r *big.Rat) int {
	t := truncRat(r)
	if t.Sign() == 0 {
		return 0
	}
	return len(t.Abs(t).String())
}

// fracDigits is the number of fractional digits needed to write r exactly (r must have a
// power-of-ten denominator after reduction by 2s and 5s; all values here do), capped at 200.
func fracDigits(r *big.Rat) int {
	n := 0
	x := new(big.Rat).Set(r)
	ten := big.NewRat(10, 1)
	for !x.IsInt() && n < 200 {
		x.Mul(x, ten)
		n++
	}
	return n
}

// errorAccepted says whether an error is an acceptable outcome for e whose exact result is r
// (statement: "the mathematically exact value (in a wide enough type) or an out-of-range
// error"). An error is accepted exactly when r does not fit the widest type MySQL or the
// engine would compute the operation in; for everything else an error is a violation.
func errorAccepted(e expr, r *big.Rat) bool {
	bothInt := e.a.isInt && (e.op == "neg" || e.b.isInt)
	switch e.op {
	case "+", "-", "*":
		if bothInt {
			if !ratInInt(r, minI64, maxI64) {
				return true
			}
			// a negative result of unsigned arithmetic is out of range in MySQL (either operand
			// unsigned); the engine also types some non-negative literals as unsigned.
			return r.Sign() < 0 && (e.a.myU || e.b.myU || (e.a.val.Sign() >= 0 && e.b.val.Sign() >= 0))
		}
		return intDigits(r)+min(fracDigits(r), 30) > 65
	case "neg":
		if bothInt {
			return !ratInInt(r, minI64, maxI64)
		}
		return false
	case "DIV":
		// the engine computes DIV in BIGINT; MySQL would also allow BIGINT UNSIGNED results
		return !ratInInt(r, minI64, maxI64)
	case "/":
		return intDigits(r)+4 > 65
	}
	return false // %
}

// ---------------------------------------------------------------------------------------
// engine result of one expression

type cell struct {
	null  bool
	num   *big.Rat
	float bool
	err   error
	panic any
	stack string
	other string // non-numeric value
	scale int    // scale of the reported DECIMAL result type, -1 if the type is not DECIMAL
}

func (c cell) String() string {
	switch {
	case c.panic != nil:
		return fmt.Sprintf("PANIC %v", c.panic)
	case c.err != nil:
		return "ERROR " + c.err.Error()
	case c.null:
		return "NULL"
	case c.num != nil:
		if c.float {
			f, _ := c.num.Float64()
			return "float " + strconv.FormatFloat(f, 'g', -1, 64)
		}
		return c.num.RatString() + fmt.Sprintf(" (reported scale %d)", c.scale)
	}
	return "non-numeric " + c.other
}

func cellOf(v any, typ sql.Type) cell {
	c := cell{scale: -1}
	if dt, ok := typ.(sql.DecimalType); ok {
		c.scale = int(dt.Scale())
	}
	n := fx.Norm(v, typ)
	switch {
	case n == "N":
		c.null = true
	case strings.HasPrefix(n, "n:"):
		r, ok := new(big.Rat).SetString(n[2:])
		if !ok {
			c.other = n
		} else {
			c.num = r
		}
	case strings.HasPrefix(n, "f:"):
		f, err := strconv.ParseFloat(n[2:], 64)
		if err != nil || f != f || f > 1e308 || f < -1e308 {
			c.other = n
		} else {
			c.num = new(big.Rat).SetFloat64(f)
			c.float = true
		}
	default:
		c.other = n
	}
	return c
}

// judge decides one expression. ok=false is a violation of the statement.
func judge(e expr, c cell) (ok bool, class string) {
	if c.panic != nil {
		return false, "panic"
	}
	r, null := exact(e)
	if null {
		if c.err == nil && c.null {
			if e.a.val == nil || (e.op != "neg" && e.b.val == nil) {
				return true, "null-operand"
			}
			return true, "null-zero-divisor"
		}
		return false, "want-null"
	}
	if c.err != nil {
		if errorAccepted(e, r) {
			return true, "error-out-of-range"
		}
		return false, "spurious-error"
	}
	if c.null || c.num == nil {
		return false, "not-a-number"
	}
	if c.num.Cmp(r) == 0 {
		return true, "exact"
	}
	diff := new(big.Rat).Sub(c.num, r)
	diff.Abs(diff)
	switch e.op {
	case "/":
		if c.float {
			// a floating point result type for exact operands is not asserted against; stated tolerance 1e-9 relative
			tol := new(big.Rat).Mul(new(big.Rat).Abs(r), big.NewRat(1, 1000000000))
			if diff.Cmp(tol) <= 0 {
				return true, "div-float"
			}
			return false, "div-float-wrong"
		}
		sc := c.scale
		if sc < 0 {
			return false, "div-not-decimal"
		}
		// The quotient must be the exact quotient correctly rounded to the reported scale, or
		// truncated to it: MySQL computes the quotient truncated to a multiple of 9 fractional
		// digits and rounds that to the result scale, which is a plain truncation whenever the
		// result scale is itself that multiple of 9 (e.g. 0.99999999999999999999999 / 126).
		half := new(big.Rat).SetFrac(bi(1), new(big.Int).Mul(bi(2), pow10(sc)))
		if diff.Cmp(half) <= 0 {
			return true, "div-rounded"
		}
		scaled := new(big.Rat).Mul(r, new(big.Rat).SetInt(pow10(sc)))
		tr := new(big.Rat).SetFrac(truncRat(scaled), pow10(sc))
		if c.num.Cmp(tr) == 0 {
			return true, "div-truncated"
		}
		return false, "div-wrong"
	case "+", "-", "*":
		// MySQL caps the scale of DECIMAL results at 30: a result that needs more fractional
		// digits may be returned exactly or rounded/truncated at the 30th digit.
		if fracDigits(r) > 30 && diff.Cmp(new(big.Rat).SetFrac(bi(1), pow10(30))) < 0 {
			return true, "scale-capped-30"
		}
	}
	return false, "wrong-value"
}

func nonTrivial(e expr, r *big.Rat) bool {
	if e.a.boundary || (e.op != "neg" && e.b.boundary) {
		return true
	}
	if e.op == "/" || e.op == "DIV" || e.op == "%" {
		if e.b.val != nil && e.b.val.Sign() <= 0 {
			return true
		}
	}
	if r != nil {
		for _, o := range []operand{e.a, e.b} {
			if o.tmin != nil && !ratInInt(r, o.tmin, o.tmax) {
				return true
			}
		}
	}
	return false
}

// ---------------------------------------------------------------------------------------
// running a batch of expressions

type env struct {
	f *fx.Fixture
	s *fx.Sess
}

func colVals(tb *table) []*big.Rat {
	out := make([]*big.Rat, len(tb.vals))
	for i, v := range tb.vals {
		out[i], _ = new(big.Rat).SetString(v)
	}
	return out
}

// runBatch evaluates all expressions over the one-row table. stored=false reports that a
// column does not hold the intended value (a storing problem, property C27 - not judged here).
func runBatch(fail func(string, ...any), tb *table, es []expr) (cells []cell, stored bool) {
	f := fx.New(fx.Opts{})
	defer f.Close()
	s := f.NewSession("", "", "")
	from := ""
	var cols []string
	if len(tb.defs) > 0 {
		s.MustExec(fail, tb.ddl(), tb.insert())
		from = " FROM t"
		for i := range tb.defs {
			cols = append(cols, fmt.Sprintf("c%d", i))
		}
		r := s.Exec("SELECT " + strings.Join(cols, ", ") + from)
		if !r.OK() || len(r.Rows) != 1 {
			fail("cannot read the operand table back: %s", r)
		}
		want := colVals(tb)
		for i, v := range r.Rows[0] {
			c := cellOf(v, r.Schema[i].Type)
			if c.num == nil || c.num.Cmp(want[i]) != 0 {
				return nil, false
			}
		}
	}
	sqls := make([]string, len(es))
	for i, e := range es {
		sqls[i] = e.sql
	}
	cells = make([]cell, len(es))
	r := s.Exec("SELECT " + strings.Join(sqls, ", ") + from)
	if r.OK() && len(r.Rows) == 1 && len(r.Rows[0]) == len(es) {
		for i, v := range r.Rows[0] {
			cells[i] = cellOf(v, r.Schema[i].Type)
		}
		return cells, true
	}
	if r.Panic != nil || r.TimedOut {
		// a recovered panic poisons the fixture: evaluate one by one on fresh fixtures
		for i := range es {
			cs, _ := runBatch(fail, tb, es[i:i+1])
			if len(es) == 1 {
				return []cell{{panic: r.Panic, stack: r.Stack, scale: -1}}, true
			}
			cells[i] = cs[0]
		}
		return cells, true
	}
	// an ordinary error of the whole statement: find out which expressions raise it
	for i, q := range sqls {
		ri := s.Exec("SELECT " + q + from)
		switch {
		case ri.Panic != nil:
			cells[i] = cell{panic: ri.Panic, stack: ri.Stack, scale: -1}
			return cells[:i+1], true
		case ri.Err != nil:
			cells[i] = cell{err: ri.Err, scale: -1}
		case len(ri.Rows) == 1 && len(ri.Rows[0]) == 1:
			cells[i] = cellOf(ri.Rows[0][0], ri.Schema[0].Type)
		default:
			cells[i] = cell{other: ri.String(), scale: -1}
		}
	}
	return cells, true
}

func opClass(e expr) string {
	k := func(o operand) string {
		if o.val == nil {
			return "null"
		}
		if o.isInt {
			return "int"
		}
		return "dec"
	}
	if e.op == "neg" {
		return "op neg " + k(e.a)
	}
	return "op " + e.op + " " + k(e.a) + "x" + k(e.b)
}

// checkExprs runs and judges the expressions; violations that match the signature of a
// listed known finding are counted, everything else fails the case.
func checkExprs(rt *rapid.T, st *stats.Collector, tb *table, es []expr) {
	if len(es) == 0 {
		return
	}
	cells, stored := runBatch(rt.Fatalf, tb, es)
	if !stored {
		st.Class("skipped: operand column does not hold the inserted value (C27)")
		return
	}
	for i, c := range cells {
		e := es[i]
		st.Eval()
		ok, class := judge(e, c)
		r, _ := exact(e)
		if !ok {
			if id := signature(e, c, r); id != "" && kf.Suppress(st, id) {
				st.Class("known " + id)
				continue
			}
			want := "NULL"
			if r != nil {
				want = r.RatString()
			}
			rt.Fatalf("C25 violated (%s)\n  %s\n  %s\n  SELECT %s%s\n  operands: %s\n  exact result: %s\n  engine:       %s\n%s",
				class, tb.ddlOrNone(), tb.insertOrNone(), e.sql, fromOf(tb), e, want, c, c.stack)
		}
		st.Class(opClass(e))
		st.Class("outcome " + class)
		if strings.HasPrefix(e.a.desc, "col") || strings.HasPrefix(e.b.desc, "col") {
			st.Class("has column operand")
		}
		if r != nil && e.a.isInt && (e.op == "neg" || e.b.isInt) && !ratInInt(r, minI64, maxI64) {
			st.Class("int result outside BIGINT")
		}
		if nonTrivial(e, r) {
			st.NonTrivial(map[string]string{"expr": e.String(), "engine": c.String()}, e.op, e.form, e.a.String(), e.b.String())
		}
	}
}

func (t *table) ddlOrNone() string {
	if len(t.defs) == 0 {
		return "(no table)"
	}
	return t.ddl()
}

func (t *table) insertOrNone() string {
	if len(t.defs) == 0 {
		return ""
	}
	return t.insert()
}

func fromOf(t *table) string {
	if len(t.defs) == 0 {
		return ""
	}
	return " FROM t"
}

func batchSize() int {
	if os.Getenv("VERIF_TIER") == "thorough" {
		return 16
	}
	return 12
}

// TestC25 is the main search: batches of generated expressions. Expressions that lie in the
// input region of a *listed* known finding are dropped (counted as excluded_known), so that
// the search covers everything else; TestC25Known looks into those regions.
func TestC25(t *testing.T) {
	st := stats.New("C25", "")
	defer st.Flush()
	rapid.Check(t, func(rt *rapid.T) {
		tb := &table{}
		n := rapid.IntRange(1, batchSize()).Draw(rt, "n")
		var es []expr
		for i := 0; i < n; i++ {
			mark := len(tb.defs)
			e := genExpr(rt, tb, fmt.Sprintf("e%d", i))
			if id := region(e); id != "" && kf.Listed(id) {
				st.Excluded(id)
				// drop the expression and the columns it added
				tb.defs, tb.vals = tb.defs[:mark], tb.vals[:mark]
				continue
			}
			es = append(es, e)
		}
		checkExprs(rt, st, tb, es)
	})
}
