// Package c48 checks property C48: a function run through errguard.Go never crashes the
// process; a panic with any panic value becomes an error returned by the group, and an
// ordinary returned error is propagated unchanged. errguard.RecoverAndLog swallows any
// panic of the goroutine that defers it.
//
// Technique: generated function trees (rapid) run on real errgroups under the race
// detector, decided by a compositional model (fails / set of ordinary error identities /
// may-be-a-panic-error).
package c48

import (
	"context"
	"errors"
	"fmt"
	"io"
	"os"
	"os/exec"
	"runtime"
	"strings"
	"sync"
	"testing"
	"time"

	"github.com/sirupsen/logrus"
	"golang.org/x/sync/errgroup"
	"pgregory.net/rapid"

	"github.com/dolthub/go-mysql-server/errguard"
	"github.com/dolthub/go-mysql-server/vh/internal/kf"
	"github.com/dolthub/go-mysql-server/vh/internal/stats"
)

// ---------------------------------------------------------------------------------------
// panic values

type plainStruct struct {
	A int
	B string
}

type customErr struct{ id int }

func (e *customErr) Error() string { return fmt.Sprintf("custom error %d", e.id) }

// derefErr dereferences its receiver: a typed-nil *derefErr panics inside Error().
type derefErr struct{ msg string }

func (e *derefErr) Error() string { return e.msg }

type panicString struct{ n int }

func (p panicString) String() string { panic(fmt.Sprintf("String() of panicString %d panics", p.n)) }

type panicError struct{ n int }

func (p panicError) Error() string { panic(errors.New("Error() panics")) }

type panicFormat struct{}

func (panicFormat) Format(f fmt.State, verb rune) { panic("Format() panics") }

// nilDerefString panics with a runtime.Error (nil map write) inside String().
type nilDerefString struct{}

func (nilDerefString) String() string {
	var m map[string]int
	m["x"] = 1
	return ""
}

// doublePanic: formatting it panics with a value whose formatting panics again. fmt
// recovers only one level (fmt.(*pp).catchPanic re-panics when already "panicking"), so
// formatting this value with %v panics. Region of finding C48-format-repanic: while the finding
// is listed the main search re-draws it (excluded by construction, counted in excluded_known);
// otherwise it is generated like every other panic value. TestC48Crash confirms the witness in
// a child process.
type doublePanic struct{}

func (d doublePanic) Error() string { panic(innerPanic{}) }

type innerPanic struct{}

func (innerPanic) Error() string { panic("inner Error() panics too") }

const nPanicKinds = 25

const kindDoublePanic = 24

const knownFormatRepanic = "C48-format-repanic"

var panicKindNames = [nPanicKinds]string{
	"string", "error", "wrapped-error", "nil", "int", "float", "struct", "ptr-struct",
	"typed-nil-error", "panicking-String", "panicking-Error", "panicking-Format",
	"String-runtime-error", "rt-nil-map", "rt-index", "rt-nil-deref", "rt-div-zero",
	"rt-type-assert", "rt-closed-chan", "bytes", "map", "func", "custom-error", "nil-func-call",
	"double-panicking-Error",
}

var zero int // never changes; keeps the compiler from rejecting a constant division by zero

// doPanic panics with a value of the given kind. It never returns.
func doPanic(kind, id int) {
	switch kind {
	case 0:
		panic(fmt.Sprintf("boom %d", id))
	case 1:
		panic(errors.New("boom error"))
	case 2:
		panic(fmt.Errorf("outer: %w", io.ErrUnexpectedEOF))
	case 3:
		panic(nil) // *runtime.PanicNilError since go1.21
	case 4:
		panic(id)
	case 5:
		panic(3.25)
	case 6:
		panic(plainStruct{id, "x"})
	case 7:
		panic(&plainStruct{id, "y"})
	case 8:
		var e *derefErr
		panic(e) // non-nil interface holding a nil pointer; Error() dereferences it
	case 9:
		panic(panicString{id})
	case 10:
		panic(panicError{id})
	case 11:
		panic(panicFormat{})
	case 12:
		panic(nilDerefString{})
	case 13:
		var m map[int]int
		m[id] = 1
	case 14:
		s := make([]int, id%3)
		_ = s[len(s)+zero+id%3]
	case 15:
		var p *plainStruct
		_ = p.A
	case 16:
		_ = id / zero
	case 17:
		var x any = "str"
		_ = x.(int)
	case 18:
		c := make(chan int)
		close(c)
		close(c)
	case 19:
		panic([]byte("bytes boom"))
	case 20:
		panic(map[string]int{"a": id})
	case 21:
		panic(func() {})
	case 22:
		panic(&customErr{id})
	case 23:
		var f func() error
		_ = f()
	case kindDoublePanic:
		panic(doublePanic{})
	}
	panic("unreachable: kind did not panic")
}

// ---------------------------------------------------------------------------------------
// function trees

const (
	actNil          = iota // return nil
	actErr                 // return an ordinary error
	actPanic               // panic
	actRecoverToErr        // panic, recovered by the function's own defer, which returns an ordinary error
	actDeferPanic          // return normally (nil or error), but a deferred function panics
	actRepanic             // panic; own defer recovers and panics again with another value
	actCtxWait             // wait for the group's context, return ctx.Err() (only where a sibling surely fails)
	nActs
)

var actNames = [nActs]string{"nil", "err", "panic", "recover-to-err", "defer-panic", "repanic", "ctx-wait"}

const (
	useReturn = iota // if the nested group failed, return its error unchanged
	useIgnore        // ignore the nested result
	usePanic         // if the nested group failed, panic with its error
	useWrap          // if the nested group failed, return it wrapped with %w (an ordinary, new error)
	nUses
)

type node struct {
	id      int
	yields  int
	act     int
	errKind int // 0 sentinel io.EOF, 1 fresh errors.New, 2 wrapped sentinel, 3 *customErr, 4 joined
	pkind   int
	pkind2  int
	same    []*node // spawned through errguard.Go on the same group before acting
	nested  *group  // run (spawn all + Wait) before acting
	use     int

	err  error // the ordinary error this node returns (actErr, actRecoverToErr, actDeferPanic?)
	wrap error // error returned for useWrap, filled at run time
}

type group struct {
	withCtx bool
	fns     []*node
}

type builder struct {
	st     *stats.Collector
	rt     *rapid.T
	nextID int
	budget int
}

func (b *builder) node(depth int) *node {
	rt := b.rt
	n := &node{id: b.nextID}
	b.nextID++
	b.budget--
	n.yields = rapid.IntRange(0, 3).Draw(rt, "yields")
	n.act = rapid.SampledFrom([]int{actNil, actNil, actErr, actErr, actPanic, actPanic, actPanic, actRecoverToErr, actDeferPanic, actRepanic, actCtxWait}).Draw(rt, "act")
	n.errKind = rapid.IntRange(0, 4).Draw(rt, "errKind")
	n.pkind = b.panicKind(rapid.IntRange(0, nPanicKinds-1).Draw(rt, "pkind"))
	n.pkind2 = b.panicKind(rapid.IntRange(0, nPanicKinds-1).Draw(rt, "pkind2"))
	switch n.errKind {
	case 0:
		n.err = io.EOF
	case 1:
		n.err = fmt.Errorf("ordinary error of node %d", n.id)
	case 2:
		n.err = fmt.Errorf("node %d: %w", n.id, os.ErrNotExist)
	case 3:
		n.err = &customErr{n.id}
	case 4:
		n.err = errors.Join(io.EOF, fmt.Errorf("joined %d", n.id))
	}
	if depth < 3 && b.budget > 0 {
		switch rapid.IntRange(0, 5).Draw(rt, "shape") {
		case 0, 1: // spawn on the same group
			k := rapid.IntRange(1, 2).Draw(rt, "nsame")
			for i := 0; i < k && b.budget > 0; i++ {
				n.same = append(n.same, b.node(depth+1))
			}
		case 2: // nested group
			n.nested = b.group(depth+1, rapid.IntRange(1, 3).Draw(rt, "nnested"))
			n.use = rapid.IntRange(0, nUses-1).Draw(rt, "use")
		}
	}
	return n
}

// panicKind maps the region of a listed finding to a neighbouring kind (a value whose Error()
// panics once), so that the search continues behind the finding.
func (b *builder) panicKind(k int) int {
	if k == kindDoublePanic && kf.Listed(knownFormatRepanic) {
		if b.st != nil {
			b.st.Excluded(knownFormatRepanic)
		}
		return 10
	}
	return k
}

func (b *builder) group(depth, k int) *group {
	g := &group{withCtx: rapid.Bool().Draw(b.rt, "withCtx")}
	for i := 0; i < k && (b.budget > 0 || i == 0); i++ {
		g.fns = append(g.fns, b.node(depth))
	}
	return g
}

// members lists every function that runs on group g (top-level functions and, recursively,
// the functions they spawn on the same group).
func (g *group) members() []*node {
	var out []*node
	var walk func(n *node)
	walk = func(n *node) {
		out = append(out, n)
		for _, c := range n.same {
			walk(c)
		}
	}
	for _, f := range g.fns {
		walk(f)
	}
	return out
}

// outcome of a function or of a group (model)
type outcome struct {
	fails    bool
	ordinary map[error]bool // identities of ordinary errors that may be the result
	mayPanic bool           // the result may be an error made from a panic
	wrapped  []error        // the result may be a %w-wrapper (made at run time) of one of these nested results
	wrapAny  bool           // ... or of a nested panic error
}

func newOutcome() *outcome { return &outcome{ordinary: map[error]bool{}} }

func (o *outcome) add(p *outcome) {
	if !p.fails {
		return
	}
	o.fails = true
	for e := range p.ordinary {
		o.ordinary[e] = true
	}
	o.mayPanic = o.mayPanic || p.mayPanic
	o.wrapped = append(o.wrapped, p.wrapped...)
	o.wrapAny = o.wrapAny || p.wrapAny
}

// failsWithoutCtx reports whether function n fails regardless of any context (its own
// failure does not depend on a ctx-wait of the group it runs on). Nested groups have been
// normalised before (bottom-up), so their outcome is final.
func (n *node) selfOutcome() *outcome {
	o := newOutcome()
	if n.nested != nil {
		no := n.nested.outcome()
		if no.fails {
			switch n.use {
			case useReturn:
				o.add(no)
				return o
			case usePanic:
				o.fails, o.mayPanic = true, true
				return o
			case useWrap:
				o.fails = true
				for e := range no.ordinary {
					o.wrapped = append(o.wrapped, e)
				}
				if no.mayPanic || no.wrapAny || len(no.wrapped) > 0 {
					o.wrapAny = true
				}
				return o
			}
		}
	}
	switch n.act {
	case actNil:
	case actErr, actRecoverToErr:
		o.fails = true
		o.ordinary[n.err] = true
	case actPanic, actDeferPanic, actRepanic:
		o.fails, o.mayPanic = true, true
	case actCtxWait:
		o.fails = true
		o.ordinary[context.Canceled] = true
	}
	return o
}

func (g *group) outcome() *outcome {
	o := newOutcome()
	for _, m := range g.members() {
		o.add(m.selfOutcome())
	}
	return o
}

// normalise makes every ctx-wait leaf safe: it stays only in a WithContext group in which a
// function other than a ctx-waiter surely fails (otherwise nothing would ever cancel the
// context before Wait returns and the function would block for ever; callers only wait on a
// group context that some sibling or the caller cancels). Bottom-up.
func (g *group) normalise() {
	ms := g.members()
	for _, m := range ms {
		if m.nested != nil {
			m.nested.normalise()
		}
	}
	sure := false
	for _, m := range ms {
		if m.act != actCtxWait && m.selfOutcome().fails {
			sure = true
		}
		// a function that leaves through its nested group's failure never reaches its own act
	}
	for _, m := range ms {
		if m.act == actCtxWait && !(g.withCtx && sure) {
			m.act = actNil
		}
	}
}

// ---------------------------------------------------------------------------------------
// execution

type runner struct {
	mu      sync.Mutex
	wraps   map[error]error // wrapper -> wrapped nested result
	hung    bool
	ctxSeen int
}

func yield(n int) {
	for i := 0; i < n; i++ {
		runtime.Gosched()
	}
}

func (r *runner) fn(n *node, g *errgroup.Group, ctx context.Context) func() error {
	return func() (err error) {
		yield(n.yields)
		for _, c := range n.same {
			errguard.Go(g, r.fn(c, g, ctx))
		}
		if n.nested != nil {
			nerr := r.runGroup(n.nested)
			if nerr != nil {
				switch n.use {
				case useReturn:
					return nerr
				case usePanic:
					panic(nerr)
				case useWrap:
					w := fmt.Errorf("node %d wraps: %w", n.id, nerr)
					r.mu.Lock()
					r.wraps[w] = nerr
					r.mu.Unlock()
					return w
				}
			}
		}
		yield(n.yields)
		switch n.act {
		case actNil:
			return nil
		case actErr:
			return n.err
		case actPanic:
			doPanic(n.pkind, n.id)
		case actRecoverToErr:
			defer func() {
				if rec := recover(); rec != nil {
					err = n.err
				}
			}()
			doPanic(n.pkind, n.id)
		case actDeferPanic:
			defer doPanic(n.pkind, n.id)
			if n.errKind%2 == 0 {
				return nil
			}
			return n.err
		case actRepanic:
			defer func() {
				if rec := recover(); rec != nil {
					doPanic(n.pkind2, n.id)
				}
			}()
			doPanic(n.pkind, n.id)
		case actCtxWait:
			select {
			case <-ctx.Done():
				r.mu.Lock()
				r.ctxSeen++
				r.mu.Unlock()
				return ctx.Err()
			case <-time.After(60 * time.Second):
				// only reachable if a failing sibling did not cancel the group's context,
				// i.e. its panic/error did not become the group's error
				r.mu.Lock()
				r.hung = true
				r.mu.Unlock()
				return nil
			}
		}
		return nil
	}
}

func (r *runner) runGroup(gs *group) error {
	var g *errgroup.Group
	ctx := context.Background()
	if gs.withCtx {
		g, ctx = errgroup.WithContext(ctx)
	} else {
		g = new(errgroup.Group)
	}
	for _, f := range gs.fns {
		errguard.Go(g, r.fn(f, g, ctx))
	}
	return g.Wait()
}

func describe(g *group) string {
	var sb strings.Builder
	var wn func(n *node)
	var wg func(g *group)
	wn = func(n *node) {
		fmt.Fprintf(&sb, "{#%d y%d %s", n.id, n.yields, actNames[n.act])
		switch n.act {
		case actErr, actRecoverToErr:
			fmt.Fprintf(&sb, " err%d", n.errKind)
		}
		switch n.act {
		case actPanic, actRecoverToErr, actDeferPanic, actRepanic:
			fmt.Fprintf(&sb, " panic(%s)", panicKindNames[n.pkind])
		}
		if n.act == actRepanic {
			fmt.Fprintf(&sb, " then panic(%s)", panicKindNames[n.pkind2])
		}
		if len(n.same) > 0 {
			sb.WriteString(" same:[")
			for _, c := range n.same {
				wn(c)
			}
			sb.WriteString("]")
		}
		if n.nested != nil {
			fmt.Fprintf(&sb, " nested(use=%d):", n.use)
			wg(n.nested)
		}
		sb.WriteString("}")
	}
	wg = func(g *group) {
		fmt.Fprintf(&sb, "group(ctx=%v)[", g.withCtx)
		for _, f := range g.fns {
			wn(f)
		}
		sb.WriteString("]")
	}
	wg(g)
	return sb.String()
}

func TestC48(t *testing.T) {
	logrus.SetOutput(io.Discard) // RecoverAndLog logs every recovered panic with a stack
	st := stats.New("C48", "")
	defer st.Flush()
	rapid.Check(t, func(rt *rapid.T) {
		st.Eval()
		b := &builder{st: st, rt: rt, budget: rapid.IntRange(1, 12).Draw(rt, "budget")}
		top := b.group(0, rapid.IntRange(1, 8).Draw(rt, "nfns"))
		top.normalise()
		want := top.outcome()
		desc := describe(top)

		// plain goroutines guarded by RecoverAndLog
		nlog := rapid.IntRange(0, 2).Draw(rt, "nlog")
		logKinds := make([]int, nlog)
		for i := range logKinds {
			logKinds[i] = b.panicKind(rapid.IntRange(-1, nPanicKinds-1).Draw(rt, "logKind"))
		}

		r := &runner{wraps: map[error]error{}}
		var wg sync.WaitGroup
		for i, k := range logKinds {
			wg.Add(1)
			go func() {
				defer wg.Done()
				defer errguard.RecoverAndLog("c48 goroutine")
				yield(i)
				if k >= 0 {
					doPanic(k, i)
				}
			}()
		}
		got := r.runGroup(top)
		wg.Wait() // returning at all means RecoverAndLog swallowed every panic value

		if r.hung {
			rt.Fatalf("%s: a function waiting on the group context was never released although a sibling fails", desc)
		}
		if !want.fails {
			if got != nil {
				rt.Fatalf("%s: no function fails, Wait returned %v", desc, got)
			}
		} else {
			if got == nil {
				rt.Fatalf("%s: a function fails, Wait returned nil", desc)
			}
			ok := want.ordinary[got]
			if !ok {
				if inner, isWrap := r.wraps[got]; isWrap {
					// the wrapper itself was made by the test function; accept if the model allows a wrapper
					for _, e := range want.wrapped {
						if e == inner {
							ok = true
						}
					}
					ok = ok || want.wrapAny
				} else if want.mayPanic {
					ok = true // a new error object not returned by any function: made from a panic
				}
			}
			if !ok {
				rt.Fatalf("%s: Wait returned %T %q, which is neither one of the ordinary errors the functions return (identity) nor can stem from a panic (no function panics)", desc, got, firstLine(got))
			}
		}

		// classes and non-triviality
		nonString, nestedGo, panics := false, false, 0
		var walk func(g *group, depth int)
		walk = func(g *group, depth int) {
			for _, m := range g.members() {
				switch m.act {
				case actPanic, actDeferPanic, actRepanic:
					panics++
					st.Class("panic:" + panicKindNames[m.pkind])
					if m.pkind != 0 {
						nonString = true
					}
				}
				st.Class("act:" + actNames[m.act])
				if len(m.same) > 0 {
					nestedGo = true
					st.Class("spawns-on-same-group")
				}
				if m.nested != nil {
					nestedGo = true
					st.Class("nested-group")
					walk(m.nested, depth+1)
				}
			}
		}
		walk(top, 0)
		switch {
		case !want.fails:
			st.Class("result:nil")
		case want.ordinary[got]:
			st.Class("result:ordinary-error")
		default:
			st.Class("result:panic-or-wrapper")
		}
		if r.ctxSeen > 0 {
			st.Class("ctx-wait-released")
		}
		if panics > 0 && (nonString || nestedGo) {
			st.NonTrivial(map[string]any{"tree": desc, "result": firstLine(got)}, desc)
		}
	})
}

func firstLine(err error) string {
	if err == nil {
		return "<nil>"
	}
	s := fmt.Sprintf("%v", err)
	if i := strings.IndexByte(s, '\n'); i >= 0 {
		s = s[:i]
	}
	if len(s) > 120 {
		s = s[:120]
	}
	return s
}

// ---------------------------------------------------------------------------------------
// proposed finding C48-format-repanic: a panic value whose formatting panics with a value
// whose formatting panics again escapes the recover wrapper (fmt re-panics on the nested
// formatting panic, inside the deferred function of errguard.Go / inside RecoverAndLog) and
// kills the process. The witness must run in a child process.

const childEnv = "C48_CRASH_CHILD"

func TestC48CrashChild(t *testing.T) {
	mode := os.Getenv(childEnv)
	if mode == "" {
		t.Skip("helper for TestC48Crash")
	}
	logrus.SetOutput(io.Discard)
	switch mode {
	case "go":
		g := new(errgroup.Group)
		errguard.Go(g, func() error { panic(doublePanic{}) })
		err := g.Wait()
		fmt.Printf("C48-CHILD-SURVIVED err-is-nil=%v\n", err == nil)
	case "log":
		done := make(chan struct{})
		go func() {
			defer close(done)
			defer errguard.RecoverAndLog("c48 child")
			panic(doublePanic{})
		}()
		<-done
		fmt.Printf("C48-CHILD-SURVIVED err-is-nil=false\n")
	case "control": // single-level formatting panic: must survive with an error
		g := new(errgroup.Group)
		errguard.Go(g, func() error { panic(panicError{1}) })
		err := g.Wait()
		fmt.Printf("C48-CHILD-SURVIVED err-is-nil=%v\n", err == nil)
	}
}

func TestC48Crash(t *testing.T) {
	st := stats.New("C48", "crash-witness")
	defer st.Flush()
	for _, mode := range []string{"control", "go", "log"} {
		st.Eval()
		cmd := exec.Command(os.Args[0], "-test.run=^TestC48CrashChild$", "-test.v")
		cmd.Env = append(os.Environ(), childEnv+"="+mode, "VERIF_STATS_OUT=")
		out, err := cmd.CombinedOutput()
		survived := err == nil && strings.Contains(string(out), "C48-CHILD-SURVIVED err-is-nil=false")
		if mode == "control" {
			if !survived {
				t.Fatalf("control child (single-level formatting panic) did not survive with an error: %v\n%s", err, tail(out))
			}
			st.NonTrivial(nil, mode)
			continue
		}
		st.NonTrivial(nil, mode)
		if survived {
			st.Class("double-format-panic-survived:" + mode)
			if kf.Listed(knownFormatRepanic) {
				t.Logf("STALE known finding C48-format-repanic (%s): the doubly-panicking panic value is now turned into an error", mode)
			}
			continue
		}
		// signature: the child died (or lost the error) on the doubly-panicking panic value
		st.Excluded(knownFormatRepanic)
		if kf.Suppress(st, knownFormatRepanic) {
			t.Logf("KNOWN C48-format-repanic (%s): child process died: %v", mode, err)
			continue
		}
		t.Fatalf("errguard (%s): a panic value whose Error() panics with a value whose Error() panics again is not turned into an error; the child process died: %v\n%s", mode, err, tail(out))
	}
}

func tail(b []byte) string {
	s := string(b)
	if len(s) > 1500 {
		s = s[:1500]
	}
	return s
}
