// Package c43 checks property C43: after any history of DDL, information_schema and the
// SHOW statements list exactly the objects that exist, with their current definitions.
// A rapid state machine issues DDL against two databases and a small catalog model is
// updated by the same statements; after every step the structured fields reported by the
// engine are compared with the model in both directions.
package c43

import (
	"fmt"
	"os"
	"sort"
	"strings"
	"testing"

	"github.com/dolthub/go-mysql-server/vh/internal/fx"
	"github.com/dolthub/go-mysql-server/vh/internal/kf"
	"github.com/dolthub/go-mysql-server/vh/internal/stats"
	"pgregory.net/rapid"
)

// Proposed known-finding ids (notes/C43.md).
const (
	kfRenameTrigger   = "C43-rename-table-orphans-trigger"
	kfShowTriggersDB  = "C43-show-triggers-from-db-ignored"
	kfInvalidViewList = "C43-invalid-view-not-listed"
	kfBacktickColumn  = "C43-backtick-stripped-from-column-name"
	kfShowIndexTable  = "C43-show-index-stale-table-name"
)

var allFindings = []string{kfRenameTrigger, kfShowTriggersDB, kfInvalidViewList, kfBacktickColumn, kfShowIndexTable}

var dbs = []string{"d", "e"}

var (
	tableNames = []string{"t1", "t2", "T3", "my tbl", "ord`er", "select"}
	colNames   = []string{"a", "b", "c", "Dd", "e f", "g`h", "key", "x1", "x2", "x3"}
	idxNames   = []string{"k1", "k2", "K3", "ix 4", "i`5"}
	fkNames    = []string{"fk1", "fk2", "FK 3"}
	chkNames   = []string{"ck1", "ck2", "CK 3"}
	viewNames  = []string{"v1", "v2", "My View"}
	trigNames  = []string{"tr1", "tr2", "Tr 3"}
	procNames  = []string{"p1", "p2", "My Proc"}
)

type colTypeSpec struct{ sql, dataType string }

var colTypes = []colTypeSpec{
	{"INT", "int"}, {"INT", "int"}, {"BIGINT", "bigint"}, {"VARCHAR(20)", "varchar"}, {"DATETIME", "datetime"}, {"DECIMAL(10,2)", "decimal"},
}

func qid(id string) string      { return "`" + strings.ReplaceAll(id, "`", "``") + "`" }
func qn(db, name string) string { return qid(db) + "." + qid(name) }

type machine struct {
	st      *stats.Collector
	f       *fx.Fixture
	sess    map[string]*fx.Sess // one session per current database
	cat     *catalog
	dead    bool
	history []string
	counted bool
	event   string // dependant-affecting event of the last step ("" if none)
	dropped []string
	avoid   map[string]bool
	colPool []string
}

func newMachine(st *stats.Collector) *machine {
	m := &machine{st: st, cat: &catalog{}, sess: map[string]*fx.Sess{}, avoid: map[string]bool{}}
	m.f = fx.New(fx.Opts{DBs: dbs, Root: true})
	for _, db := range dbs {
		m.sess[db] = m.f.NewSession("root", "localhost", db)
	}
	for _, id := range allFindings {
		m.avoid[id] = kf.Listed(id)
	}
	m.colPool = colNames
	if m.avoid[kfBacktickColumn] {
		// STATISTICS / KEY_COLUMN_USAGE strip back-ticks from column names (listed finding):
		// column names with a back-tick are left out of the pool
		m.colPool = nil
		for _, n := range colNames {
			if !strings.Contains(n, "`") {
				m.colPool = append(m.colPool, n)
			}
		}
		st.Excluded("column-name-with-backtick")
	}
	return m
}

func (m *machine) close() { m.f.Close() }

// exec sends one DDL statement through the session whose current database is db (the engine
// rejects e.g. RENAME TABLE `e`.`x` TO `e`.`y` from a session whose current database is d). An
// unexpected rejection ends the case (the model only describes accepted statements; what a
// failed statement may leave behind is property C15's subject, not C43's).
func (m *machine) exec(rt *rapid.T, db, action, q string) bool {
	r := m.sess[db].Exec(q)
	if r.Panic != nil {
		m.dead = true
		m.st.Class("abandoned-panic:" + action)
		if os.Getenv("C43_DEBUG") != "" {
			fmt.Printf("PANIC %v\n%s\nHISTORY\n%s;\n%s\n", r.Panic, firstLines(r.Stack, 42), strings.Join(m.history, ";\n"), q)
		}
		rt.Logf("PANIC (case abandoned) %s: %v", q, r.Panic)
		return false
	}
	if !r.OK() {
		m.dead = true
		m.st.Class("abandoned-rejected:" + action)
		if os.Getenv("C43_DEBUG") != "" {
			fmt.Printf("REJECTED %v\nHISTORY\n%s;\n%s\n", r.Err, strings.Join(m.history, ";\n"), q)
		}
		rt.Logf("REJECTED (case abandoned) %s: %v", q, r.Err)
		return false
	}
	m.history = append(m.history, q)
	m.st.Class("step:" + action)
	return true
}

// deadPanic unwinds an action of an abandoned case (recovered in step): the remaining steps of
// the history become no-ops.
type deadPanic struct{}

func (m *machine) skipIfDead(rt *rapid.T) {
	if m.dead {
		panic(deadPanic{})
	}
}

// step wraps an action so that it is a no-op once the case has been abandoned.
func step(f func(*rapid.T)) func(*rapid.T) {
	return func(rt *rapid.T) {
		defer func() {
			if p := recover(); p != nil {
				if _, ok := p.(deadPanic); !ok {
					panic(p)
				}
			}
		}()
		f(rt)
	}
}

func firstLines(s string, n int) string {
	ls := strings.Split(s, "\n")
	return strings.Join(ls[:min(n, len(ls))], "\n")
}

func pick[T any](rt *rapid.T, xs []T, label string) T {
	if len(xs) == 0 {
		rt.Skip("nothing to pick for " + label)
	}
	return rapid.SampledFrom(xs).Draw(rt, label)
}

func unusedName(rt *rapid.T, pool []string, taken func(string) bool, label string) string {
	var free []string
	for _, n := range pool {
		if !taken(n) {
			free = append(free, n)
		}
	}
	return pick(rt, free, label)
}

// ---------------------------------------------------------------------------------------
// actions

func (m *machine) createTable(rt *rapid.T) {
	m.skipIfDead(rt)
	db := pick(rt, dbs, "db")
	name := unusedName(rt, tableNames, func(n string) bool { return m.cat.relationNameTaken(db, n) }, "tname")
	t := &mTable{DB: db, Name: name}
	n := rapid.IntRange(1, 4).Draw(rt, "ncols")
	perm := rapid.Permutation(m.colPool).Draw(rt, "cnames")
	var defs []string
	for i := 0; i < n; i++ {
		ty := pick(rt, colTypes, "ctype")
		c := mCol{Name: perm[i], DataType: ty.dataType, SQLType: ty.sql, Nullable: !rapid.Bool().Draw(rt, "notnull")}
		t.Cols = append(t.Cols, c)
	}
	if rapid.IntRange(0, 2).Draw(rt, "haspk") > 0 {
		k := rapid.IntRange(1, min(2, n)).Draw(rt, "npk")
		ix := mIdx{Name: "PRIMARY", Unique: true}
		for _, ci := range rapid.Permutation(intsTo(n)).Draw(rt, "pkcols")[:k] {
			t.Cols[ci].Nullable = false
			ix.Cols = append(ix.Cols, t.Cols[ci].Name)
		}
		t.Idx = append(t.Idx, ix)
	}
	for i := range t.Cols {
		d := qid(t.Cols[i].Name) + " " + t.Cols[i].SQLType
		if !t.Cols[i].Nullable {
			d += " NOT NULL"
		}
		defs = append(defs, d)
	}
	if p := t.pk(); p != nil {
		defs = append(defs, "PRIMARY KEY ("+qids(p.Cols)+")")
	}
	nidx := rapid.IntRange(0, 2).Draw(rt, "nidx")
	inames := rapid.Permutation(idxNames).Draw(rt, "inames")
	for i := 0; i < nidx; i++ {
		ix := mIdx{Name: inames[i], Unique: rapid.Bool().Draw(rt, "unique")}
		k := rapid.IntRange(1, min(2, n)).Draw(rt, "nic")
		for _, ci := range rapid.Permutation(intsTo(n)).Draw(rt, "icols")[:k] {
			ix.Cols = append(ix.Cols, t.Cols[ci].Name)
		}
		t.Idx = append(t.Idx, ix)
		kw := "KEY"
		if ix.Unique {
			kw = "UNIQUE KEY"
		}
		defs = append(defs, kw+" "+qid(ix.Name)+" ("+qids(ix.Cols)+")")
	}
	if rapid.IntRange(0, 3).Draw(rt, "hascheck") == 0 {
		for i := range t.Cols {
			if t.Cols[i].DataType == "int" || t.Cols[i].DataType == "bigint" {
				cn := unusedName(rt, chkNames, func(n string) bool { return m.cat.constraintNameTaken(db, n) }, "ckname")
				t.Checks = append(t.Checks, mCheck{Name: cn, Col: t.Cols[i].Name})
				defs = append(defs, "CONSTRAINT "+qid(cn)+" CHECK ("+qid(t.Cols[i].Name)+" > 0)")
				break
			}
		}
	}
	if m.exec(rt, db, "create-table", "CREATE TABLE "+qn(db, name)+" ("+strings.Join(defs, ", ")+")") {
		m.cat.Tables = append(m.cat.Tables, t)
	}
}

func intsTo(n int) []int {
	out := make([]int, n)
	for i := range out {
		out[i] = i
	}
	return out
}

func qids(names []string) string {
	q := make([]string, len(names))
	for i, n := range names {
		q[i] = qid(n)
	}
	return strings.Join(q, ", ")
}

func (m *machine) anyTable(rt *rapid.T) *mTable { return pick(rt, m.cat.Tables, "table") }

func (m *machine) dropTable(rt *rapid.T) {
	m.skipIfDead(rt)
	var cands []*mTable
	for _, t := range m.cat.Tables {
		ok := true
		for _, f := range m.cat.referencedBy(t) {
			if !(f.RefDB == t.DB && lc(f.RefTable) == lc(t.Name) && tableOfFK(m.cat, f) == t) {
				ok = false
			}
		}
		if ok {
			cands = append(cands, t)
		}
	}
	t := pick(rt, cands, "table")
	trigs, views := m.cat.triggersOn(t), m.cat.viewsOn(t)
	if len(views) > 0 && m.avoid[kfInvalidViewList] {
		m.st.Excluded("drop-table-with-view")
		rt.Skip("excluded")
	}
	if !m.exec(rt, t.DB, "drop-table", "DROP TABLE "+qn(t.DB, t.Name)) {
		return
	}
	if len(trigs) > 0 || len(views) > 0 || len(t.FKs) > 0 {
		m.event = "drop-table-with-dependants"
	}
	m.dropped = append(m.dropped, "TABLE "+qn(t.DB, t.Name))
	m.cat.Tables = removePtr(m.cat.Tables, t)
	// MySQL drops the triggers of a dropped table
	var keep []*mTrigger
	for _, g := range m.cat.Triggers {
		if !(g.DB == t.DB && lc(g.Table) == lc(t.Name)) {
			keep = append(keep, g)
		}
	}
	m.cat.Triggers = keep
}

func tableOfFK(c *catalog, f *mFK) *mTable {
	for _, t := range c.Tables {
		for i := range t.FKs {
			if &t.FKs[i] == f {
				return t
			}
		}
	}
	return nil
}

func removePtr[T comparable](xs []T, x T) []T {
	var out []T
	for _, y := range xs {
		if y != x {
			out = append(out, y)
		}
	}
	return out
}

func (m *machine) renameTable(rt *rapid.T) {
	m.skipIfDead(rt)
	t := m.anyTable(rt)
	trigs, views, refs := m.cat.triggersOn(t), m.cat.viewsOn(t), m.cat.referencedBy(t)
	if len(trigs) > 0 && m.avoid[kfRenameTrigger] {
		m.st.Excluded("rename-table-with-trigger")
		rt.Skip("excluded")
	}
	if len(views) > 0 && m.avoid[kfInvalidViewList] {
		m.st.Excluded("rename-table-with-view")
		rt.Skip("excluded")
	}
	nn := unusedName(rt, tableNames, func(n string) bool { return m.cat.relationNameTaken(t.DB, n) }, "newname")
	var q string
	switch rapid.IntRange(0, 2).Draw(rt, "form") {
	case 0:
		q = "RENAME TABLE " + qn(t.DB, t.Name) + " TO " + qn(t.DB, nn)
	case 1:
		q = "ALTER TABLE " + qn(t.DB, t.Name) + " RENAME TO " + qn(t.DB, nn)
	default:
		q = "ALTER TABLE " + qn(t.DB, t.Name) + " RENAME " + qn(t.DB, nn)
	}
	if !m.exec(rt, t.DB, "rename-table", q) {
		return
	}
	if len(trigs) > 0 || len(views) > 0 || len(refs) > 0 || len(t.FKs) > 0 {
		m.event = "rename-table-with-dependants"
	}
	m.dropped = append(m.dropped, "TABLE "+qn(t.DB, t.Name))
	old := t.Name
	for _, f := range refs {
		f.RefTable = nn
	}
	for _, g := range trigs {
		g.Table = nn
	}
	t.Name = nn
	t.Renamed = true
	if len(trigs) > 0 {
		// Signature of C43-rename-table-orphans-trigger, evaluated right after the rename of a
		// table that has triggers: the trigger listing of that database fails, or still names
		// the old table. (MySQL moves the triggers along with the table.)
		if orphanedTriggers(m.sess[t.DB], t.DB, old, trigs) {
			m.fail(rt, []string{kfRenameTrigger}, "after %s the triggers of the table are orphaned: information_schema.TRIGGERS for schema %s fails or still names table %q", q, t.DB, old)
		}
	}
}

// orphanedTriggers reports whether the TRIGGERS listing of db fails or reports one of trigs on
// the table's old name.
func orphanedTriggers(s *fx.Sess, db, oldTable string, trigs []*mTrigger) bool {
	r := s.Exec("SELECT TRIGGER_NAME, EVENT_OBJECT_TABLE FROM information_schema.TRIGGERS WHERE TRIGGER_SCHEMA = '" + db + "'")
	if !r.OK() {
		return true
	}
	for _, row := range fx.NormRows(r.Schema, r.Rows) {
		for _, g := range trigs {
			if lc(strip(row[0])) == lc(g.Name) && lc(strip(row[1])) == lc(oldTable) {
				return true
			}
		}
	}
	return false
}

func (m *machine) addColumn(rt *rapid.T) {
	m.skipIfDead(rt)
	t := m.anyTable(rt)
	if len(t.Cols) >= 6 {
		rt.Skip("enough columns")
	}
	name := unusedName(rt, m.colPool, func(n string) bool { return t.col(n) != nil }, "cname")
	ty := pick(rt, colTypes, "ctype")
	c := mCol{Name: name, DataType: ty.dataType, SQLType: ty.sql, Nullable: !rapid.Bool().Draw(rt, "notnull")}
	q := "ALTER TABLE " + qn(t.DB, t.Name) + " ADD COLUMN " + qid(c.Name) + " " + c.SQLType
	if !c.Nullable {
		q += " NOT NULL"
	}
	pos := len(t.Cols)
	switch rapid.IntRange(0, 2).Draw(rt, "position") {
	case 1:
		q += " FIRST"
		pos = 0
	case 2:
		after := rapid.IntRange(0, len(t.Cols)-1).Draw(rt, "after")
		q += " AFTER " + qid(t.Cols[after].Name)
		pos = after + 1
	}
	if !m.exec(rt, t.DB, "add-column", q) {
		return
	}
	t.Cols = append(t.Cols[:pos], append([]mCol{c}, t.Cols[pos:]...)...)
}

func (m *machine) dropColumn(rt *rapid.T) {
	m.skipIfDead(rt)
	t := m.anyTable(rt)
	if len(t.Cols) < 2 {
		rt.Skip("single column")
	}
	var cands []string
	for _, c := range t.Cols {
		if !t.inPK(c.Name) && !t.colInFK(c.Name) && !t.colInCheck(c.Name) && !m.cat.colReferenced(t, c.Name) {
			cands = append(cands, c.Name)
		}
	}
	name := pick(rt, cands, "column")
	usedByView := false
	for _, v := range m.cat.viewsOn(t) {
		for _, vc := range v.Cols {
			if lc(vc) == lc(name) {
				usedByView = true
			}
		}
	}
	if usedByView && m.avoid[kfInvalidViewList] {
		m.st.Excluded("drop-column-used-by-view")
		rt.Skip("excluded")
	}
	inIdx := t.memberOfIndex(name)
	// an index that supports a foreign key must keep its leading column
	for _, ix := range t.Idx {
		if lc(ix.Cols[0]) == lc(name) && len(ix.Cols) > 1 && (t.colInFK(ix.Cols[1]) || m.cat.colReferenced(t, ix.Cols[1])) {
			rt.Skip("would promote an FK column")
		}
	}
	q := "ALTER TABLE " + qn(t.DB, t.Name) + " DROP COLUMN " + qid(name)
	if rapid.Bool().Draw(rt, "short") {
		q = "ALTER TABLE " + qn(t.DB, t.Name) + " DROP " + qid(name)
	}
	if !m.exec(rt, t.DB, "drop-column", q) {
		return
	}
	if inIdx || usedByView {
		m.event = "drop-column-with-dependants"
	}
	var cols []mCol
	for _, c := range t.Cols {
		if lc(c.Name) != lc(name) {
			cols = append(cols, c)
		}
	}
	t.Cols = cols
	var idx []mIdx
	for _, ix := range t.Idx {
		var cs []string
		for _, c := range ix.Cols {
			if lc(c) != lc(name) {
				cs = append(cs, c)
			}
		}
		if len(cs) > 0 {
			ix.Cols = cs
			idx = append(idx, ix)
		}
	}
	t.Idx = idx
}

func (m *machine) modifyColumn(rt *rapid.T) {
	m.skipIfDead(rt)
	t := m.anyTable(rt)
	var cands []int
	for i, c := range t.Cols {
		if !t.colInFK(c.Name) && !m.cat.colReferenced(t, c.Name) {
			cands = append(cands, i)
		}
	}
	ci := pick(rt, cands, "column")
	c := &t.Cols[ci]
	nc := *c
	switch c.DataType {
	case "int":
		nc.SQLType, nc.DataType = "BIGINT", "bigint"
	case "bigint":
		nc.SQLType, nc.DataType = "INT", "int"
	case "varchar":
		nc.SQLType = rapid.SampledFrom([]string{"VARCHAR(30)", "VARCHAR(20)"}).Draw(rt, "vlen")
	}
	if !t.inPK(c.Name) {
		nc.Nullable = !rapid.Bool().Draw(rt, "notnull")
	}
	q := "ALTER TABLE " + qn(t.DB, t.Name) + " MODIFY COLUMN " + qid(c.Name) + " " + nc.SQLType
	if !nc.Nullable {
		q += " NOT NULL"
	}
	if !m.exec(rt, t.DB, "modify-column", q) {
		return
	}
	*c = nc
}

func (m *machine) renameColumn(rt *rapid.T) {
	m.skipIfDead(rt)
	t := m.anyTable(rt)
	var cands []int
	for i, c := range t.Cols {
		if t.colInCheck(c.Name) {
			continue
		}
		if p := t.pk(); p != nil && len(p.Cols) > 1 && t.inPK(c.Name) {
			// engine DDL defect outside this property (notes: O1): renaming a member of a
			// composite primary key changes the key's column order in the catalog itself
			m.st.Class("skipped:rename-column-in-composite-pk")
			continue
		}
		cands = append(cands, i)
	}
	ci := pick(rt, cands, "column")
	c := &t.Cols[ci]
	old := c.Name
	usedByView := false
	for _, v := range m.cat.viewsOn(t) {
		for _, vc := range v.Cols {
			if lc(vc) == lc(old) {
				usedByView = true
			}
		}
	}
	if usedByView && m.avoid[kfInvalidViewList] {
		m.st.Excluded("rename-column-used-by-view")
		rt.Skip("excluded")
	}
	nn := unusedName(rt, m.colPool, func(n string) bool { return t.col(n) != nil }, "newname")
	q := "ALTER TABLE " + qn(t.DB, t.Name) + " RENAME COLUMN " + qid(old) + " TO " + qid(nn)
	if rapid.Bool().Draw(rt, "change") {
		q = "ALTER TABLE " + qn(t.DB, t.Name) + " CHANGE COLUMN " + qid(old) + " " + qid(nn) + " " + c.SQLType
		if !c.Nullable {
			q += " NOT NULL"
		}
	}
	dependants := t.memberOfIndex(old) || t.colInFK(old) || m.cat.colReferenced(t, old) || usedByView
	if !m.exec(rt, t.DB, "rename-column", q) {
		return
	}
	if dependants {
		m.event = "rename-column-with-dependants"
	}
	for _, f := range m.cat.referencedBy(t) {
		if lc(f.RefCol) == lc(old) {
			f.RefCol = nn
		}
	}
	c.Name = nn
	for i := range t.Idx {
		for j := range t.Idx[i].Cols {
			if lc(t.Idx[i].Cols[j]) == lc(old) {
				t.Idx[i].Cols[j] = nn
			}
		}
	}
	for i := range t.FKs {
		if lc(t.FKs[i].Col) == lc(old) {
			t.FKs[i].Col = nn
		}
	}
}

func (m *machine) addPK(rt *rapid.T) {
	m.skipIfDead(rt)
	var cands []*mTable
	for _, t := range m.cat.Tables {
		if t.pk() == nil {
			cands = append(cands, t)
		}
	}
	t := pick(rt, cands, "table")
	k := rapid.IntRange(1, min(2, len(t.Cols))).Draw(rt, "npk")
	ix := mIdx{Name: "PRIMARY", Unique: true}
	for _, ci := range rapid.Permutation(intsTo(len(t.Cols))).Draw(rt, "pkcols")[:k] {
		ix.Cols = append(ix.Cols, t.Cols[ci].Name)
	}
	if !m.exec(rt, t.DB, "add-primary-key", "ALTER TABLE "+qn(t.DB, t.Name)+" ADD PRIMARY KEY ("+qids(ix.Cols)+")") {
		return
	}
	for _, cn := range ix.Cols {
		t.col(cn).Nullable = false
	}
	t.Idx = append([]mIdx{ix}, t.Idx...)
}

func (m *machine) dropPK(rt *rapid.T) {
	m.skipIfDead(rt)
	var cands []*mTable
	for _, t := range m.cat.Tables {
		if t.pk() != nil && len(t.FKs) == 0 && len(m.cat.referencedBy(t)) == 0 {
			cands = append(cands, t)
		}
	}
	t := pick(rt, cands, "table")
	if !m.exec(rt, t.DB, "drop-primary-key", "ALTER TABLE "+qn(t.DB, t.Name)+" DROP PRIMARY KEY") {
		return
	}
	var idx []mIdx
	for _, ix := range t.Idx {
		if ix.Name != "PRIMARY" {
			idx = append(idx, ix)
		}
	}
	t.Idx = idx
}

func (m *machine) addIndex(rt *rapid.T) {
	m.skipIfDead(rt)
	t := m.anyTable(rt)
	name := unusedName(rt, idxNames, func(n string) bool { return t.idx(n) != nil }, "iname")
	ix := mIdx{Name: name, Unique: rapid.Bool().Draw(rt, "unique")}
	k := rapid.IntRange(1, min(2, len(t.Cols))).Draw(rt, "nic")
	for _, ci := range rapid.Permutation(intsTo(len(t.Cols))).Draw(rt, "icols")[:k] {
		ix.Cols = append(ix.Cols, t.Cols[ci].Name)
	}
	u := ""
	if ix.Unique {
		u = "UNIQUE "
	}
	q := "ALTER TABLE " + qn(t.DB, t.Name) + " ADD " + u + "INDEX " + qid(name) + " (" + qids(ix.Cols) + ")"
	if rapid.Bool().Draw(rt, "createindex") {
		q = "CREATE " + u + "INDEX " + qid(name) + " ON " + qn(t.DB, t.Name) + " (" + qids(ix.Cols) + ")"
	}
	if !m.exec(rt, t.DB, "add-index", q) {
		return
	}
	t.Idx = append(t.Idx, ix)
}

func (m *machine) dropIndex(rt *rapid.T) {
	m.skipIfDead(rt)
	t := m.anyTable(rt)
	var cands []string
	for _, ix := range t.Idx {
		if ix.Name == "PRIMARY" || t.colInFK(ix.Cols[0]) || m.cat.colReferenced(t, ix.Cols[0]) {
			continue
		}
		cands = append(cands, ix.Name)
	}
	name := pick(rt, cands, "index")
	q := "ALTER TABLE " + qn(t.DB, t.Name) + " DROP INDEX " + qid(name)
	if rapid.Bool().Draw(rt, "dropindex") {
		q = "DROP INDEX " + qid(name) + " ON " + qn(t.DB, t.Name)
	}
	if !m.exec(rt, t.DB, "drop-index", q) {
		return
	}
	var idx []mIdx
	for _, ix := range t.Idx {
		if lc(ix.Name) != lc(name) {
			idx = append(idx, ix)
		}
	}
	t.Idx = idx
}

func (m *machine) addFK(rt *rapid.T) {
	m.skipIfDead(rt)
	type pair struct {
		child, parent *mTable
		cc, pc        string
	}
	var cands []pair
	for _, c := range m.cat.Tables {
		if len(c.FKs) >= 2 {
			continue
		}
		for _, cc := range c.Cols {
			if (cc.DataType != "int" && cc.DataType != "bigint") || !c.firstColOfIndex(cc.Name) || c.colInFK(cc.Name) {
				continue
			}
			for _, p := range m.cat.Tables {
				if p.DB != c.DB {
					continue
				}
				for _, pc := range p.Cols {
					if pc.SQLType == cc.SQLType && p.firstColOfIndex(pc.Name) && !(p == c && lc(pc.Name) == lc(cc.Name)) {
						cands = append(cands, pair{c, p, cc.Name, pc.Name})
					}
				}
			}
		}
	}
	pr := pick(rt, cands, "fkpair")
	name := unusedName(rt, fkNames, func(n string) bool { return m.cat.constraintNameTaken(pr.child.DB, n) }, "fkname")
	q := "ALTER TABLE " + qn(pr.child.DB, pr.child.Name) + " ADD CONSTRAINT " + qid(name) + " FOREIGN KEY (" + qid(pr.cc) + ") REFERENCES " + qn(pr.parent.DB, pr.parent.Name) + " (" + qid(pr.pc) + ")"
	if !m.exec(rt, pr.child.DB, "add-foreign-key", q) {
		return
	}
	pr.child.FKs = append(pr.child.FKs, mFK{Name: name, Col: pr.cc, RefDB: pr.parent.DB, RefTable: pr.parent.Name, RefCol: pr.pc})
}

func (m *machine) dropFK(rt *rapid.T) {
	m.skipIfDead(rt)
	var cands []*mTable
	for _, t := range m.cat.Tables {
		if len(t.FKs) > 0 {
			cands = append(cands, t)
		}
	}
	t := pick(rt, cands, "table")
	i := rapid.IntRange(0, len(t.FKs)-1).Draw(rt, "fk")
	if !m.exec(rt, t.DB, "drop-foreign-key", "ALTER TABLE "+qn(t.DB, t.Name)+" DROP FOREIGN KEY "+qid(t.FKs[i].Name)) {
		return
	}
	t.FKs = append(t.FKs[:i], t.FKs[i+1:]...)
}

func (m *machine) addCheck(rt *rapid.T) {
	m.skipIfDead(rt)
	t := m.anyTable(rt)
	var cols []string
	for _, c := range t.Cols {
		if c.DataType == "int" || c.DataType == "bigint" {
			cols = append(cols, c.Name)
		}
	}
	col := pick(rt, cols, "column")
	name := unusedName(rt, chkNames, func(n string) bool { return m.cat.constraintNameTaken(t.DB, n) }, "ckname")
	if !m.exec(rt, t.DB, "add-check", "ALTER TABLE "+qn(t.DB, t.Name)+" ADD CONSTRAINT "+qid(name)+" CHECK ("+qid(col)+" < 1000)") {
		return
	}
	t.Checks = append(t.Checks, mCheck{Name: name, Col: col})
}

func (m *machine) dropCheck(rt *rapid.T) {
	m.skipIfDead(rt)
	var cands []*mTable
	for _, t := range m.cat.Tables {
		if len(t.Checks) > 0 {
			cands = append(cands, t)
		}
	}
	t := pick(rt, cands, "table")
	i := rapid.IntRange(0, len(t.Checks)-1).Draw(rt, "check")
	kw := rapid.SampledFrom([]string{"DROP CHECK", "DROP CONSTRAINT"}).Draw(rt, "form")
	if !m.exec(rt, t.DB, "drop-check", "ALTER TABLE "+qn(t.DB, t.Name)+" "+kw+" "+qid(t.Checks[i].Name)) {
		return
	}
	t.Checks = append(t.Checks[:i], t.Checks[i+1:]...)
}

func (m *machine) createView(rt *rapid.T) {
	m.skipIfDead(rt)
	t := m.anyTable(rt)
	name := unusedName(rt, viewNames, func(n string) bool { return m.cat.relationNameTaken(t.DB, n) }, "vname")
	k := rapid.IntRange(1, len(t.Cols)).Draw(rt, "nvc")
	v := &mView{DB: t.DB, Name: name, Base: t.Name}
	for _, c := range t.Cols[:k] {
		v.Cols = append(v.Cols, c.Name)
	}
	if !m.exec(rt, t.DB, "create-view", "CREATE VIEW "+qn(t.DB, name)+" AS SELECT "+qids(v.Cols)+" FROM "+qn(t.DB, t.Name)) {
		return
	}
	m.cat.Views = append(m.cat.Views, v)
}

func (m *machine) dropView(rt *rapid.T) {
	m.skipIfDead(rt)
	v := pick(rt, m.cat.Views, "view")
	if !m.exec(rt, v.DB, "drop-view", "DROP VIEW "+qn(v.DB, v.Name)) {
		return
	}
	m.dropped = append(m.dropped, "VIEW "+qn(v.DB, v.Name))
	m.cat.Views = removePtr(m.cat.Views, v)
}

func (m *machine) createTrigger(rt *rapid.T) {
	m.skipIfDead(rt)
	t := m.anyTable(rt)
	name := unusedName(rt, trigNames, func(n string) bool {
		for _, g := range m.cat.Triggers {
			if g.DB == t.DB && lc(g.Name) == lc(n) {
				return true
			}
		}
		return false
	}, "trname")
	g := &mTrigger{DB: t.DB, Name: name, Table: t.Name,
		Event:  rapid.SampledFrom([]string{"INSERT", "UPDATE", "DELETE"}).Draw(rt, "event"),
		Timing: rapid.SampledFrom([]string{"BEFORE", "AFTER"}).Draw(rt, "timing")}
	if !m.exec(rt, t.DB, "create-trigger", "CREATE TRIGGER "+qn(t.DB, name)+" "+g.Timing+" "+g.Event+" ON "+qn(t.DB, t.Name)+" FOR EACH ROW SET @c43 = 1") {
		return
	}
	m.cat.Triggers = append(m.cat.Triggers, g)
}

func (m *machine) dropTrigger(rt *rapid.T) {
	m.skipIfDead(rt)
	g := pick(rt, m.cat.Triggers, "trigger")
	if !m.exec(rt, g.DB, "drop-trigger", "DROP TRIGGER "+qn(g.DB, g.Name)) {
		return
	}
	m.dropped = append(m.dropped, "TRIGGER "+qn(g.DB, g.Name))
	m.cat.Triggers = removePtr(m.cat.Triggers, g)
}

func (m *machine) createProc(rt *rapid.T) {
	m.skipIfDead(rt)
	db := pick(rt, dbs, "db")
	name := unusedName(rt, procNames, func(n string) bool {
		for _, p := range m.cat.Procs {
			if p.DB == db && lc(p.Name) == lc(n) {
				return true
			}
		}
		return false
	}, "pname")
	params := rapid.SampledFrom([]string{"()", "(x INT)", "(IN x INT, OUT y INT)"}).Draw(rt, "params")
	if !m.exec(rt, db, "create-procedure", "CREATE PROCEDURE "+qn(db, name)+params+" SELECT 1") {
		return
	}
	m.cat.Procs = append(m.cat.Procs, &mProc{DB: db, Name: name})
}

func (m *machine) dropProc(rt *rapid.T) {
	m.skipIfDead(rt)
	p := pick(rt, m.cat.Procs, "procedure")
	if !m.exec(rt, p.DB, "drop-procedure", "DROP PROCEDURE "+qn(p.DB, p.Name)) {
		return
	}
	m.dropped = append(m.dropped, "PROCEDURE "+qn(p.DB, p.Name))
	m.cat.Procs = removePtr(m.cat.Procs, p)
}

// ---------------------------------------------------------------------------------------
// verification

func strip(v string) string {
	if v == "N" {
		return "<null>"
	}
	if len(v) >= 2 && v[1] == ':' {
		return v[2:]
	}
	return v
}

// query returns the rows of q as lower-cased "|"-joined keys.
func (m *machine) query(rt *rapid.T, sess *fx.Sess, q string) ([][]string, *fx.Result) {
	r := sess.Exec(q)
	if !r.OK() {
		return nil, r
	}
	var rows [][]string
	for _, row := range fx.NormRows(r.Schema, r.Rows) {
		out := make([]string, len(row))
		for i, v := range row {
			out[i] = lc(strip(v))
		}
		rows = append(rows, out)
	}
	return rows, r
}

func key(parts ...any) string {
	s := make([]string, len(parts))
	for i, p := range parts {
		s[i] = lc(fmt.Sprint(p))
	}
	return strings.Join(s, "|")
}

func (m *machine) fail(rt *rapid.T, sigs []string, format string, args ...any) bool {
	for _, id := range sigs {
		if kf.Suppress(m.st, id) {
			m.st.Class("known:" + id)
			m.dead = true // the catalog is in the state of a known finding: stop this case
			return true
		}
	}
	rt.Fatalf("%s\n--- DDL history\n%s", fmt.Sprintf(format, args...), strings.Join(m.history, ";\n"))
	return false
}

// compareSets checks got == want as sets (multiplicity included through duplicate detection).
func (m *machine) compareSets(rt *rapid.T, sigs []string, what string, got [][]string, want map[string]bool) bool {
	seen := map[string]bool{}
	for _, row := range got {
		k := strings.Join(row, "|")
		if seen[k] {
			return m.fail(rt, sigs, "%s lists %q twice", what, k)
		}
		seen[k] = true
		if !want[k] {
			return m.fail(rt, sigs, "%s lists %q, which the catalog model does not contain (stale or wrong entry)\n  reported: %v\n  expected: %v", what, k, sortedStrings(seen2(got)), sortedStrings(want))
		}
	}
	for k := range want {
		if !seen[k] {
			return m.fail(rt, sigs, "%s does not list %q (missing entry)\n  reported: %v\n  expected: %v", what, k, sortedStrings(seen), sortedStrings(want))
		}
	}
	return false
}

func seen2(rows [][]string) map[string]bool {
	m := map[string]bool{}
	for _, r := range rows {
		m[strings.Join(r, "|")] = true
	}
	return m
}

func inList() string { return "('d', 'e')" }

// setsEqual reports whether rows (without duplicates) are exactly the keys of want.
func setsEqual(rows [][]string, want map[string]bool) bool {
	got := seen2(rows)
	if len(got) != len(rows) || len(got) != len(want) {
		return false
	}
	for k := range got {
		if !want[k] {
			return false
		}
	}
	return true
}

func sigIf(cond bool, id string) []string {
	if cond {
		return []string{id}
	}
	return nil
}

func noTick(s string) string { return strings.ReplaceAll(s, "`", "") }

// viewInvalid reports whether the base table of v, or a column v selects, no longer exists.
func (m *machine) viewInvalid(v *mView) bool {
	t := m.cat.table(v.DB, v.Base)
	if t == nil {
		return true
	}
	for _, vc := range v.Cols {
		if t.col(vc) == nil {
			return true
		}
	}
	return false
}

func (m *machine) verify(rt *rapid.T) {
	if m.dead {
		return
	}
	s := m.sess["d"]
	c := m.cat
	// Known-finding signatures are attached only to the single comparison each finding affects
	// (see the places that pass a non-nil list); everywhere else a deviation always fails.
	var sigs []string

	run := func(q string) ([][]string, bool) {
		rows, r := m.query(rt, s, q)
		if !r.OK() {
			return nil, m.fail(rt, sigs, "catalog query failed: %s\n  -> %s", q, r) || true
		}
		return rows, false
	}

	// ---- TABLES / SHOW TABLES ----------------------------------------------------------
	want := map[string]bool{}
	for _, t := range c.Tables {
		want[key(t.DB, t.Name, "base table")] = true
	}
	for _, v := range c.Views {
		want[key(v.DB, v.Name, "view")] = true
	}
	rows, stop := run("SELECT TABLE_SCHEMA, TABLE_NAME, TABLE_TYPE FROM information_schema.TABLES WHERE TABLE_SCHEMA IN " + inList())
	if stop || m.compareSets(rt, sigs, "information_schema.TABLES", rows, want) {
		return
	}
	for _, db := range dbs {
		w1, w2 := map[string]bool{}, map[string]bool{}
		for _, t := range c.tablesIn(db) {
			w1[key(t.Name)] = true
			w2[key(t.Name, "base table")] = true
		}
		for _, v := range c.Views {
			if v.DB == db {
				w1[key(v.Name)] = true
				w2[key(v.Name, "view")] = true
			}
		}
		rows, stop = run("SHOW TABLES FROM " + qid(db))
		if stop || m.compareSets(rt, sigs, "SHOW TABLES FROM "+db, rows, w1) {
			return
		}
		rows, stop = run("SHOW FULL TABLES FROM " + qid(db))
		if stop || m.compareSets(rt, sigs, "SHOW FULL TABLES FROM "+db, rows, w2) {
			return
		}
	}

	// ---- COLUMNS -----------------------------------------------------------------------
	rows, stop = run("SELECT TABLE_SCHEMA, TABLE_NAME, COLUMN_NAME, ORDINAL_POSITION, IS_NULLABLE, DATA_TYPE, COLUMN_KEY FROM information_schema.COLUMNS WHERE TABLE_SCHEMA IN " + inList())
	if stop {
		return
	}
	isView := func(db, name string) bool {
		for _, v := range c.Views {
			if v.DB == db && lc(v.Name) == lc(name) {
				return true
			}
		}
		return false
	}
	want = map[string]bool{}
	for _, t := range c.Tables {
		for i, col := range t.Cols {
			want[key(t.DB, t.Name, col.Name, i+1, yesNo(col.Nullable), col.DataType)] = true
		}
	}
	var trimmed [][]string
	for _, r := range rows {
		if isView(r[0], r[1]) {
			continue // columns of views are not modelled
		}
		t := c.table(r[0], r[1])
		if t != nil {
			if msg := checkColumnKey(t, r[2], r[6]); msg != "" {
				if m.fail(rt, sigs, "information_schema.COLUMNS.COLUMN_KEY of %s.%s.%s: %s", r[0], r[1], r[2], msg) {
					return
				}
			}
		}
		trimmed = append(trimmed, r[:6])
	}
	if m.compareSets(rt, sigs, "information_schema.COLUMNS (schema|table|column|ordinal|nullable|data_type)", trimmed, want) {
		return
	}

	// ---- STATISTICS ----------------------------------------------------------------------
	want = map[string]bool{}
	for _, t := range c.Tables {
		for _, ix := range t.Idx {
			for i, col := range ix.Cols {
				want[key(t.DB, t.Name, ix.Name, i+1, col, nonUnique(ix.Unique))] = true
			}
		}
	}
	// signature of C43-backtick-stripped-from-column-name: the listing equals the expected one
	// with the back-ticks removed from the column names
	wantStripped := map[string]bool{}
	for _, t := range c.Tables {
		for _, ix := range t.Idx {
			for i, col := range ix.Cols {
				wantStripped[key(t.DB, t.Name, ix.Name, i+1, noTick(col), nonUnique(ix.Unique))] = true
			}
		}
	}
	rows, stop = run("SELECT TABLE_SCHEMA, TABLE_NAME, INDEX_NAME, SEQ_IN_INDEX, COLUMN_NAME, NON_UNIQUE FROM information_schema.STATISTICS WHERE TABLE_SCHEMA IN " + inList())
	if stop || m.compareSets(rt, sigIf(!setsEqual(rows, want) && setsEqual(rows, wantStripped), kfBacktickColumn), "information_schema.STATISTICS (schema|table|index|seq|column|non_unique)", rows, want) {
		return
	}

	// ---- KEY_COLUMN_USAGE ----------------------------------------------------------------
	want = map[string]bool{}
	wantStripped = map[string]bool{} // the engine strips back-ticks from REFERENCED_COLUMN_NAME only
	for _, t := range c.Tables {
		for _, ix := range t.Idx {
			if !ix.Unique {
				continue
			}
			for i, col := range ix.Cols {
				want[key(t.DB, ix.Name, t.Name, col, i+1, "<null>", "<null>", "<null>")] = true
				wantStripped[key(t.DB, ix.Name, t.Name, col, i+1, "<null>", "<null>", "<null>")] = true
			}
		}
		for _, f := range t.FKs {
			want[key(t.DB, f.Name, t.Name, f.Col, 1, f.RefDB, f.RefTable, f.RefCol)] = true
			wantStripped[key(t.DB, f.Name, t.Name, f.Col, 1, f.RefDB, f.RefTable, noTick(f.RefCol))] = true
		}
	}
	rows, stop = run("SELECT CONSTRAINT_SCHEMA, CONSTRAINT_NAME, TABLE_NAME, COLUMN_NAME, ORDINAL_POSITION, REFERENCED_TABLE_SCHEMA, REFERENCED_TABLE_NAME, REFERENCED_COLUMN_NAME FROM information_schema.KEY_COLUMN_USAGE WHERE TABLE_SCHEMA IN " + inList())
	if stop || m.compareSets(rt, sigIf(!setsEqual(rows, want) && setsEqual(rows, wantStripped), kfBacktickColumn), "information_schema.KEY_COLUMN_USAGE (schema|constraint|table|column|ordinal|ref_schema|ref_table|ref_column)", rows, want) {
		return
	}

	// ---- TABLE_CONSTRAINTS / REFERENTIAL_CONSTRAINTS / CHECK_CONSTRAINTS ---------------------
	want = map[string]bool{}
	wantRef, wantChk := map[string]bool{}, map[string]bool{}
	for _, t := range c.Tables {
		for _, ix := range t.Idx {
			if ix.Name == "PRIMARY" {
				want[key(t.DB, t.Name, "PRIMARY", "primary key")] = true
			} else if ix.Unique {
				want[key(t.DB, t.Name, ix.Name, "unique")] = true
			}
		}
		for _, f := range t.FKs {
			want[key(t.DB, t.Name, f.Name, "foreign key")] = true
			wantRef[key(t.DB, f.Name, t.Name, f.RefTable)] = true
		}
		for _, k := range t.Checks {
			want[key(t.DB, t.Name, k.Name, "check")] = true
			wantChk[key(t.DB, k.Name)] = true
		}
	}
	rows, stop = run("SELECT TABLE_SCHEMA, TABLE_NAME, CONSTRAINT_NAME, CONSTRAINT_TYPE FROM information_schema.TABLE_CONSTRAINTS WHERE TABLE_SCHEMA IN " + inList())
	if stop || m.compareSets(rt, sigs, "information_schema.TABLE_CONSTRAINTS (schema|table|constraint|type)", rows, want) {
		return
	}
	rows, stop = run("SELECT CONSTRAINT_SCHEMA, CONSTRAINT_NAME, TABLE_NAME, REFERENCED_TABLE_NAME FROM information_schema.REFERENTIAL_CONSTRAINTS WHERE CONSTRAINT_SCHEMA IN " + inList())
	if stop || m.compareSets(rt, sigs, "information_schema.REFERENTIAL_CONSTRAINTS (schema|constraint|table|referenced_table)", rows, wantRef) {
		return
	}
	rows, stop = run("SELECT CONSTRAINT_SCHEMA, CONSTRAINT_NAME FROM information_schema.CHECK_CONSTRAINTS WHERE CONSTRAINT_SCHEMA IN " + inList())
	if stop || m.compareSets(rt, sigs, "information_schema.CHECK_CONSTRAINTS (schema|constraint)", rows, wantChk) {
		return
	}

	// ---- TRIGGERS ------------------------------------------------------------------------
	want = map[string]bool{}
	for _, g := range c.Triggers {
		want[key(g.DB, g.Name, g.Event, g.DB, g.Table, g.Timing)] = true
	}
	rows, stop = run("SELECT TRIGGER_SCHEMA, TRIGGER_NAME, EVENT_MANIPULATION, EVENT_OBJECT_SCHEMA, EVENT_OBJECT_TABLE, ACTION_TIMING FROM information_schema.TRIGGERS WHERE TRIGGER_SCHEMA IN " + inList())
	if stop || m.compareSets(rt, sigs, "information_schema.TRIGGERS (schema|trigger|event|object_schema|object_table|timing)", rows, want) {
		return
	}
	for _, db := range dbs {
		want = map[string]bool{}
		for _, g := range c.Triggers {
			if g.DB == db {
				want[key(g.Name, g.Event, g.Table, g.Timing)] = true
			}
		}
		var r *fx.Result
		var q string
		if m.avoid[kfShowTriggersDB] {
			// listed finding: SHOW TRIGGERS FROM <db> ignores <db>; ask from a session inside db
			q = "SHOW TRIGGERS"
			rows, r = m.query(rt, m.sess[db], q)
		} else {
			q = "SHOW TRIGGERS FROM " + qid(db)
			rows, r = m.query(rt, s, q)
		}
		if !r.OK() {
			m.fail(rt, sigs, "catalog query failed: %s\n  -> %s", q, r)
			return
		}
		var proj [][]string
		for _, row := range rows {
			proj = append(proj, []string{row[0], row[1], row[2], row[4]})
		}
		// signature of C43-show-triggers-from-db-ignored: SHOW TRIGGERS FROM <other db> lists
		// exactly the triggers of the session's current database instead
		wantCur := map[string]bool{}
		for _, g := range c.Triggers {
			if g.DB == "d" {
				wantCur[key(g.Name, g.Event, g.Table, g.Timing)] = true
			}
		}
		sg := sigIf(db != "d" && !m.avoid[kfShowTriggersDB] && !setsEqual(proj, want) && setsEqual(proj, wantCur), kfShowTriggersDB)
		if m.compareSets(rt, sg, q+" [db "+db+"] (trigger|event|table|timing)", proj, want) {
			return
		}
	}

	// ---- ROUTINES ------------------------------------------------------------------------
	want = map[string]bool{}
	for _, p := range c.Procs {
		want[key(p.DB, p.Name, "procedure")] = true
	}
	rows, stop = run("SELECT ROUTINE_SCHEMA, ROUTINE_NAME, ROUTINE_TYPE FROM information_schema.ROUTINES WHERE ROUTINE_SCHEMA IN " + inList())
	if stop || m.compareSets(rt, sigs, "information_schema.ROUTINES (schema|routine|type)", rows, want) {
		return
	}
	rows, stop = run("SHOW PROCEDURE STATUS")
	if stop {
		return
	}
	var proj [][]string
	for _, row := range rows {
		if row[0] == "d" || row[0] == "e" {
			proj = append(proj, []string{row[0], row[1], row[2]})
		}
	}
	if m.compareSets(rt, sigs, "SHOW PROCEDURE STATUS (db|name|type)", proj, want) {
		return
	}

	// ---- VIEWS ---------------------------------------------------------------------------
	want = map[string]bool{}
	for _, v := range c.Views {
		want[key(v.DB, v.Name)] = true
	}
	// signature of C43-invalid-view-not-listed: exactly the views whose base table or selected
	// columns no longer exist are missing from the listing
	wantValid := map[string]bool{}
	for _, v := range c.Views {
		if !m.viewInvalid(v) {
			wantValid[key(v.DB, v.Name)] = true
		}
	}
	rows, stop = run("SELECT TABLE_SCHEMA, TABLE_NAME FROM information_schema.VIEWS WHERE TABLE_SCHEMA IN " + inList())
	if stop || m.compareSets(rt, sigIf(!setsEqual(rows, want) && setsEqual(rows, wantValid), kfInvalidViewList), "information_schema.VIEWS (schema|view)", rows, want) {
		return
	}

	// ---- per-object SHOW statements ----------------------------------------------------------
	for _, t := range c.Tables {
		if m.verifyTable(rt, sigs, t) {
			return
		}
	}
	for _, v := range c.Views {
		rows, r := m.query(rt, s, "SHOW CREATE VIEW "+qn(v.DB, v.Name))
		if !r.OK() || len(rows) != 1 || rows[0][0] != lc(v.Name) {
			if m.fail(rt, sigs, "SHOW CREATE VIEW %s: %s", qn(v.DB, v.Name), r) {
				return
			}
		}
	}
	for _, g := range c.Triggers {
		rows, r := m.query(rt, m.sess[g.DB], "SHOW CREATE TRIGGER "+qn(g.DB, g.Name))
		if !r.OK() || len(rows) != 1 || rows[0][0] != lc(g.Name) {
			if m.fail(rt, sigs, "SHOW CREATE TRIGGER %s: %s", qn(g.DB, g.Name), r) {
				return
			}
		}
	}
	for _, p := range c.Procs {
		rows, r := m.query(rt, m.sess[p.DB], "SHOW CREATE PROCEDURE "+qn(p.DB, p.Name))
		if !r.OK() || len(rows) != 1 || rows[0][0] != lc(p.Name) {
			if m.fail(rt, sigs, "SHOW CREATE PROCEDURE %s: %s", qn(p.DB, p.Name), r) {
				return
			}
		}
	}
	// objects dropped or renamed away in the last step must be gone
	for _, d := range m.dropped {
		parts := strings.SplitN(d, " ", 2)
		stillThere := false
		switch parts[0] {
		case "TABLE":
			stillThere = !strings.Contains(d, "\x00") && m.sess["d"].Exec("SHOW CREATE TABLE "+parts[1]).OK()
			// the name may have been re-used by a later object of the model
			if stillThere {
				stillThere = !m.nameInModel(parts[1])
			}
		case "VIEW":
			stillThere = m.sess["d"].Exec("SHOW CREATE VIEW "+parts[1]).OK() && !m.nameInModel(parts[1])
		case "TRIGGER":
			stillThere = m.sess["d"].Exec("SHOW CREATE TRIGGER "+parts[1]).OK() && !m.nameInModel(parts[1])
		case "PROCEDURE":
			stillThere = m.sess["d"].Exec("SHOW CREATE PROCEDURE "+parts[1]).OK() && !m.nameInModel(parts[1])
		}
		if stillThere {
			if m.fail(rt, sigs, "SHOW CREATE %s still succeeds after the object was dropped / renamed away", d) {
				return
			}
		}
	}
	m.dropped = nil

	if m.event != "" && !m.counted {
		m.counted = true
		m.st.NonTrivial(map[string]any{"event": m.event, "history": append([]string{}, m.history...)}, strings.Join(m.history, ";"))
	}
	if m.event != "" {
		m.st.Class("event:" + m.event)
	}
	m.event = ""
}

func (m *machine) nameInModel(qname string) bool {
	for _, t := range m.cat.Tables {
		if qn(t.DB, t.Name) == qname || lc(qn(t.DB, t.Name)) == lc(qname) {
			return true
		}
	}
	for _, v := range m.cat.Views {
		if lc(qn(v.DB, v.Name)) == lc(qname) {
			return true
		}
	}
	for _, g := range m.cat.Triggers {
		if lc(qn(g.DB, g.Name)) == lc(qname) {
			return true
		}
	}
	for _, p := range m.cat.Procs {
		if lc(qn(p.DB, p.Name)) == lc(qname) {
			return true
		}
	}
	return false
}

func yesNo(b bool) string {
	if b {
		return "YES"
	}
	return "NO"
}

func nonUnique(unique bool) int {
	if unique {
		return 0
	}
	return 1
}

// checkColumnKey applies the part of MySQL's COLUMN_KEY rules that does not depend on
// tie-breaking details: a primary-key column is PRI; a column that is in no index has an
// empty key; the leading column of an index has a non-empty key; a non-leading index member
// is "" or MUL.
func checkColumnKey(t *mTable, col, got string) string {
	switch {
	case t.inPK(col):
		if got != "pri" {
			return fmt.Sprintf("column is part of the primary key, reported %q", got)
		}
	case !t.memberOfIndex(col):
		if got != "" {
			return fmt.Sprintf("column is in no index, reported %q", got)
		}
	case t.firstColOfIndex(col):
		if got != "pri" && got != "uni" && got != "mul" {
			return fmt.Sprintf("column leads an index, reported %q", got)
		}
	default:
		if got != "" && got != "mul" {
			return fmt.Sprintf("column is a non-leading index member, reported %q", got)
		}
	}
	return ""
}

// verifyTable compares SHOW COLUMNS / SHOW INDEX / SHOW CREATE TABLE of one table with the model.
func (m *machine) verifyTable(rt *rapid.T, sigs []string, t *mTable) bool {
	s := m.sess["d"]
	name := qn(t.DB, t.Name)
	rows, r := m.query(rt, s, "SHOW COLUMNS FROM "+name)
	if !r.OK() {
		return m.fail(rt, sigs, "SHOW COLUMNS FROM %s failed: %s", name, r)
	}
	if len(rows) != len(t.Cols) {
		return m.fail(rt, sigs, "SHOW COLUMNS FROM %s lists %d columns, the table has %d: %v", name, len(rows), len(t.Cols), rows)
	}
	for i, row := range rows {
		c := t.Cols[i]
		base := row[1]
		if p := strings.IndexByte(base, '('); p >= 0 {
			base = base[:p]
		}
		if row[0] != lc(c.Name) || base != c.DataType || row[2] != lc(yesNo(c.Nullable)) {
			return m.fail(rt, sigs, "SHOW COLUMNS FROM %s, position %d: reported (%s, %s, null=%s), the table has (%s, %s, null=%s)", name, i+1, row[0], row[1], row[2], c.Name, c.DataType, yesNo(c.Nullable))
		}
		if msg := checkColumnKey(t, c.Name, row[3]); msg != "" {
			return m.fail(rt, sigs, "SHOW COLUMNS FROM %s, Key of %s: %s", name, c.Name, msg)
		}
	}
	rows, r = m.query(rt, s, "SHOW INDEX FROM "+name)
	if !r.OK() {
		return m.fail(rt, sigs, "SHOW INDEX FROM %s failed: %s", name, r)
	}
	// C43-show-index-stale-table-name: the Table field of secondary indexes keeps the name the
	// table had when the index was created. While the finding is listed the field is left out
	// of the comparison for renamed tables; otherwise it is compared, and the signature is
	// "table was renamed and the listing differs from the expected one in the Table field only".
	skipTable := t.Renamed && m.avoid[kfShowIndexTable]
	if skipTable {
		m.st.Excluded("show-index-table-field-of-renamed-table")
	}
	want, wantRest := map[string]bool{}, map[string]bool{}
	for _, ix := range t.Idx {
		for i, col := range ix.Cols {
			want[key(t.Name, nonUnique(ix.Unique), ix.Name, i+1, col)] = true
			wantRest[key(nonUnique(ix.Unique), ix.Name, i+1, col)] = true
		}
	}
	var proj, projRest [][]string
	for _, row := range rows {
		proj = append(proj, row[0:5])
		projRest = append(projRest, row[1:5])
	}
	if skipTable {
		if m.compareSets(rt, nil, "SHOW INDEX FROM "+name+" (non_unique|key|seq|column)", projRest, wantRest) {
			return true
		}
	} else {
		isigs := sigIf(t.Renamed && !setsEqual(proj, want) && setsEqual(projRest, wantRest), kfShowIndexTable)
		if m.compareSets(rt, isigs, "SHOW INDEX FROM "+name+" (table|non_unique|key|seq|column)", proj, want) {
			return true
		}
	}
	// SHOW CREATE TABLE, compared on its structure
	res := s.Exec("SHOW CREATE TABLE " + name)
	if !res.OK() || len(res.Rows) != 1 {
		return m.fail(rt, sigs, "SHOW CREATE TABLE %s failed: %s", name, res)
	}
	text, _ := res.Rows[0][1].(string)
	sc, err := parseShowCreate(text)
	if err != nil {
		return m.fail(rt, sigs, "SHOW CREATE TABLE %s: cannot read the statement structure (%v):\n%s", name, err, text)
	}
	var wantCols []string
	for _, c := range t.Cols {
		wantCols = append(wantCols, lc(c.Name))
	}
	if strings.Join(sc.cols, "|") != strings.Join(wantCols, "|") {
		return m.fail(rt, sigs, "SHOW CREATE TABLE %s lists columns %v, the table has %v\n%s", name, sc.cols, wantCols, text)
	}
	wantIdx, wantFK, wantChk := map[string]bool{}, map[string]bool{}, map[string]bool{}
	for _, ix := range t.Idx {
		wantIdx[key(ix.Name, ix.Unique, strings.Join(ix.Cols, ","))] = true
	}
	for _, f := range t.FKs {
		wantFK[key(f.Name, f.Col, f.RefTable, f.RefCol)] = true
	}
	for _, k := range t.Checks {
		wantChk[key(k.Name)] = true
	}
	for what, pair := range map[string][2]map[string]bool{"keys": {sc.idx, wantIdx}, "foreign keys": {sc.fks, wantFK}, "checks": {sc.checks, wantChk}} {
		got, want := sortedStrings(pair[0]), sortedStrings(pair[1])
		if strings.Join(got, ";") != strings.Join(want, ";") {
			return m.fail(rt, sigs, "SHOW CREATE TABLE %s lists %s %v, the table has %v\n%s", name, what, got, want, text)
		}
	}
	return false
}

type showCreateStruct struct {
	cols             []string
	idx, fks, checks map[string]bool
}

// readIdent reads a back-quoted identifier starting at s[pos] == '`'.
func readIdent(s string, pos int) (string, int, error) {
	if pos >= len(s) || s[pos] != '`' {
		return "", pos, fmt.Errorf("identifier expected at %d", pos)
	}
	var sb strings.Builder
	i := pos + 1
	for i < len(s) {
		if s[i] == '`' {
			if i+1 < len(s) && s[i+1] == '`' {
				sb.WriteByte('`')
				i += 2
				continue
			}
			return sb.String(), i + 1, nil
		}
		sb.WriteByte(s[i])
		i++
	}
	return "", pos, fmt.Errorf("unterminated identifier at %d", pos)
}

// readIdentList reads "(`a`,`b`(3),...)" starting at the opening parenthesis.
func readIdentList(s string, pos int) ([]string, int, error) {
	if pos >= len(s) || s[pos] != '(' {
		return nil, pos, fmt.Errorf("'(' expected at %d", pos)
	}
	var out []string
	i := pos + 1
	for {
		id, n, err := readIdent(s, i)
		if err != nil {
			return nil, pos, err
		}
		out = append(out, id)
		i = n
		if i < len(s) && s[i] == '(' { // prefix length
			for i < len(s) && s[i] != ')' {
				i++
			}
			i++
		}
		if i < len(s) && s[i] == ',' {
			i++
			continue
		}
		if i < len(s) && s[i] == ')' {
			return out, i + 1, nil
		}
		return nil, pos, fmt.Errorf("',' or ')' expected at %d", i)
	}
}

func parseShowCreate(text string) (*showCreateStruct, error) {
	sc := &showCreateStruct{idx: map[string]bool{}, fks: map[string]bool{}, checks: map[string]bool{}}
	lines := strings.Split(text, "\n")
	if len(lines) < 3 {
		return nil, fmt.Errorf("too few lines")
	}
	for _, ln := range lines[1 : len(lines)-1] {
		ln = strings.TrimSuffix(strings.TrimSpace(ln), ",")
		switch {
		case strings.HasPrefix(ln, "`"):
			id, _, err := readIdent(ln, 0)
			if err != nil {
				return nil, err
			}
			sc.cols = append(sc.cols, lc(id))
		case strings.HasPrefix(ln, "PRIMARY KEY "):
			cols, _, err := readIdentList(ln, len("PRIMARY KEY "))
			if err != nil {
				return nil, err
			}
			sc.idx[key("PRIMARY", true, strings.Join(cols, ","))] = true
		case strings.HasPrefix(ln, "UNIQUE KEY "), strings.HasPrefix(ln, "KEY "):
			unique := strings.HasPrefix(ln, "UNIQUE")
			p := strings.Index(ln, "KEY ") + 4
			id, n, err := readIdent(ln, p)
			if err != nil {
				return nil, err
			}
			cols, _, err := readIdentList(ln, n+1)
			if err != nil {
				return nil, err
			}
			sc.idx[key(id, unique, strings.Join(cols, ","))] = true
		case strings.HasPrefix(ln, "CONSTRAINT "):
			id, n, err := readIdent(ln, len("CONSTRAINT "))
			if err != nil {
				return nil, err
			}
			rest := ln[n:]
			switch {
			case strings.HasPrefix(rest, " FOREIGN KEY "):
				cols, n2, err := readIdentList(rest, len(" FOREIGN KEY "))
				if err != nil {
					return nil, err
				}
				rest = rest[n2:]
				if !strings.HasPrefix(rest, " REFERENCES ") {
					return nil, fmt.Errorf("REFERENCES expected in %q", ln)
				}
				pt, n3, err := readIdent(rest, len(" REFERENCES "))
				if err != nil {
					return nil, err
				}
				pcols, _, err := readIdentList(rest, n3+1)
				if err != nil {
					return nil, err
				}
				sc.fks[key(id, strings.Join(cols, ","), pt, strings.Join(pcols, ","))] = true
			case strings.HasPrefix(rest, " CHECK "):
				sc.checks[key(id)] = true
			default:
				return nil, fmt.Errorf("unknown constraint line %q", ln)
			}
		default:
			return nil, fmt.Errorf("unknown line %q", ln)
		}
	}
	sort.Strings(nil)
	return sc, nil
}

func TestC43(t *testing.T) {
	st := stats.New("C43", "")
	defer st.Flush()
	rapid.Check(t, func(rt *rapid.T) {
		st.Eval()
		m := newMachine(st)
		defer m.close()
		// prelude: a few tables so that histories start with material to work on
		for i, n := 0, rapid.IntRange(1, 3).Draw(rt, "prelude"); i < n; i++ {
			m.createTable(rt)
		}
		m.verify(rt)
		rt.Repeat(map[string]func(*rapid.T){
			"createTable":   step(m.createTable),
			"dropTable":     step(m.dropTable),
			"renameTable":   step(m.renameTable),
			"addColumn":     step(m.addColumn),
			"dropColumn":    step(m.dropColumn),
			"modifyColumn":  step(m.modifyColumn),
			"renameColumn":  step(m.renameColumn),
			"addPK":         step(m.addPK),
			"dropPK":        step(m.dropPK),
			"addIndex":      step(m.addIndex),
			"dropIndex":     step(m.dropIndex),
			"addFK":         step(m.addFK),
			"dropFK":        step(m.dropFK),
			"addCheck":      step(m.addCheck),
			"dropCheck":     step(m.dropCheck),
			"createView":    step(m.createView),
			"dropView":      step(m.dropView),
			"createTrigger": step(m.createTrigger),
			"dropTrigger":   step(m.dropTrigger),
			"createProc":    step(m.createProc),
			"dropProc":      step(m.dropProc),
			"noop":          func(*rapid.T) {},
			"":              m.verify,
		})
		if m.dead {
			st.Class("case-abandoned")
		} else {
			st.Class("case-completed")
		}
	})
}
