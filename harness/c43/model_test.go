package c43

import (
	"sort"
	"strings"
)

// Catalog model: a few dozen lines of obviously-correct bookkeeping, updated by the same
// DDL that is sent to the engine (only when the engine accepted the statement).

type mCol struct {
	Name     string
	DataType string // information_schema DATA_TYPE: int, bigint, varchar, datetime, decimal
	SQLType  string
	Nullable bool
}

type mIdx struct {
	Name   string // "PRIMARY" for the primary key
	Cols   []string
	Unique bool
}

type mFK struct {
	Name            string
	Col             string
	RefDB, RefTable string
	RefCol          string
}

type mCheck struct {
	Name string
	Col  string
}

type mTable struct {
	DB, Name string
	Cols     []mCol
	Idx      []mIdx
	FKs      []mFK
	Checks   []mCheck
	Renamed  bool
}

type mView struct {
	DB, Name string
	Base     string // base table (same db)
	Cols     []string
}

type mTrigger struct {
	DB, Name, Event, Timing, Table string
}

type mProc struct{ DB, Name string }

type catalog struct {
	Tables   []*mTable
	Views    []*mView
	Triggers []*mTrigger
	Procs    []*mProc
}

func lc(s string) string { return strings.ToLower(s) }

func (c *catalog) table(db, name string) *mTable {
	for _, t := range c.Tables {
		if t.DB == db && lc(t.Name) == lc(name) {
			return t
		}
	}
	return nil
}

func (c *catalog) tablesIn(db string) []*mTable {
	var out []*mTable
	for _, t := range c.Tables {
		if t.DB == db {
			out = append(out, t)
		}
	}
	return out
}

// relationNameTaken: tables and views share a namespace per database.
func (c *catalog) relationNameTaken(db, name string) bool {
	if c.table(db, name) != nil {
		return true
	}
	for _, v := range c.Views {
		if v.DB == db && lc(v.Name) == lc(name) {
			return true
		}
	}
	return false
}

func (t *mTable) col(name string) *mCol {
	for i := range t.Cols {
		if lc(t.Cols[i].Name) == lc(name) {
			return &t.Cols[i]
		}
	}
	return nil
}

func (t *mTable) idx(name string) *mIdx {
	for i := range t.Idx {
		if lc(t.Idx[i].Name) == lc(name) {
			return &t.Idx[i]
		}
	}
	return nil
}

func (t *mTable) pk() *mIdx { return t.idx("PRIMARY") }

func (t *mTable) inPK(col string) bool {
	if p := t.pk(); p != nil {
		for _, c := range p.Cols {
			if lc(c) == lc(col) {
				return true
			}
		}
	}
	return false
}

// constraint names (FK, CHECK) are unique per database in MySQL; index names per table.
func (c *catalog) constraintNameTaken(db, name string) bool {
	for _, t := range c.Tables {
		if t.DB != db {
			continue
		}
		for _, f := range t.FKs {
			if lc(f.Name) == lc(name) {
				return true
			}
		}
		for _, k := range t.Checks {
			if lc(k.Name) == lc(name) {
				return true
			}
		}
	}
	return false
}

// firstColOfIndex reports whether col is the leading column of some index of t.
func (t *mTable) firstColOfIndex(col string) bool {
	for _, ix := range t.Idx {
		if lc(ix.Cols[0]) == lc(col) {
			return true
		}
	}
	return false
}

func (t *mTable) memberOfIndex(col string) bool {
	for _, ix := range t.Idx {
		for _, c := range ix.Cols {
			if lc(c) == lc(col) {
				return true
			}
		}
	}
	return false
}

func (t *mTable) colInFK(col string) bool {
	for _, f := range t.FKs {
		if lc(f.Col) == lc(col) {
			return true
		}
	}
	return false
}

func (t *mTable) colInCheck(col string) bool {
	for _, k := range t.Checks {
		if lc(k.Col) == lc(col) {
			return true
		}
	}
	return false
}

// referencedBy returns the foreign keys of other tables (or t itself) that point at t.
func (c *catalog) referencedBy(t *mTable) []*mFK {
	var out []*mFK
	for _, o := range c.Tables {
		for i := range o.FKs {
			f := &o.FKs[i]
			if f.RefDB == t.DB && lc(f.RefTable) == lc(t.Name) {
				out = append(out, f)
			}
		}
	}
	return out
}

func (c *catalog) colReferenced(t *mTable, col string) bool {
	for _, f := range c.referencedBy(t) {
		if lc(f.RefCol) == lc(col) {
			return true
		}
	}
	return false
}

func (c *catalog) triggersOn(t *mTable) []*mTrigger {
	var out []*mTrigger
	for _, g := range c.Triggers {
		if g.DB == t.DB && lc(g.Table) == lc(t.Name) {
			out = append(out, g)
		}
	}
	return out
}

func (c *catalog) viewsOn(t *mTable) []*mView {
	var out []*mView
	for _, v := range c.Views {
		if v.DB == t.DB && lc(v.Base) == lc(t.Name) {
			out = append(out, v)
		}
	}
	return out
}

func sortedStrings(m map[string]bool) []string {
	out := make([]string, 0, len(m))
	for k := range m {
		out = append(out, k)
	}
	sort.Strings(out)
	return out
}
