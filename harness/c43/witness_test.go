package c43

import (
	"fmt"
	"strings"
	"testing"

	"github.com/dolthub/go-mysql-server/vh/internal/fx"
	"github.com/dolthub/go-mysql-server/vh/internal/kf"
	"github.com/dolthub/go-mysql-server/vh/internal/stats"
)

// A witness is the minimal DDL history of one finding plus one catalog question. observe
// classifies the answer: "ok" (the property holds), "recorded" (the engine misbehaves exactly
// the way the finding records) or anything else (a different deviation - always a failure).
type witness struct {
	id      string
	setup   []string
	observe func(s *fx.Sess) (state string, detail string)
}

func rowsOf(s *fx.Sess, q string) ([]string, *fx.Result) {
	r := s.Exec(q)
	if !r.OK() {
		return nil, r
	}
	var out []string
	for _, row := range fx.NormRows(r.Schema, r.Rows) {
		parts := make([]string, len(row))
		for i, v := range row {
			parts[i] = strip(v)
		}
		out = append(out, strings.Join(parts, "|"))
	}
	return out, r
}

func sameSet(got []string, want ...string) bool {
	if len(got) != len(want) {
		return false
	}
	m := map[string]int{}
	for _, g := range got {
		m[g]++
	}
	for _, w := range want {
		m[w]--
	}
	for _, n := range m {
		if n != 0 {
			return false
		}
	}
	return true
}

var witnesses = []witness{
	{
		id: kfRenameTrigger,
		setup: []string{
			"CREATE TABLE d.t1 (a INT PRIMARY KEY, b INT)",
			"CREATE TRIGGER d.tr1 BEFORE INSERT ON d.t1 FOR EACH ROW SET @c43 = 1",
			"RENAME TABLE d.t1 TO d.t2",
		},
		observe: func(s *fx.Sess) (string, string) {
			q := "SELECT TRIGGER_NAME, EVENT_OBJECT_TABLE FROM information_schema.TRIGGERS WHERE TRIGGER_SCHEMA = 'd'"
			got, r := rowsOf(s, q)
			switch {
			case r.Panic != nil:
				return "other", r.String()
			case !r.OK():
				return "recorded", q + " -> " + r.String()
			case sameSet(got, "tr1|t2"):
				return "ok", ""
			case sameSet(got, "tr1|t1"):
				return "recorded", q + " -> " + fmt.Sprint(got)
			}
			return "other", q + " -> " + fmt.Sprint(got)
		},
	},
	{
		id: kfShowTriggersDB,
		setup: []string{
			"CREATE TABLE d.t1 (a INT PRIMARY KEY, b INT)",
			"CREATE TABLE e.t9 (a INT PRIMARY KEY, b INT)",
			"CREATE TRIGGER d.tr1 BEFORE INSERT ON d.t1 FOR EACH ROW SET @c43 = 1",
		},
		observe: func(s *fx.Sess) (string, string) {
			// s has current database d; e has no triggers
			got, r := rowsOf(s, "SHOW TRIGGERS FROM e")
			switch {
			case !r.OK():
				return "other", r.String()
			case len(got) == 0:
				return "ok", ""
			case len(got) == 1 && strings.HasPrefix(got[0], "tr1|INSERT|t1|"):
				return "recorded", "SHOW TRIGGERS FROM e (current database d) -> " + fmt.Sprint(got)
			}
			return "other", fmt.Sprint(got)
		},
	},
	{
		id: kfInvalidViewList,
		setup: []string{
			"CREATE TABLE d.t1 (a INT PRIMARY KEY, b INT)",
			"CREATE VIEW d.v1 AS SELECT a FROM d.t1",
			"DROP TABLE d.t1",
		},
		observe: func(s *fx.Sess) (string, string) {
			// the view still exists (SHOW FULL TABLES / information_schema.TABLES list it)
			if got, r := rowsOf(s, "SHOW FULL TABLES FROM d"); !r.OK() || !sameSet(got, "v1|VIEW") {
				return "other", "SHOW FULL TABLES FROM d -> " + r.String()
			}
			q := "SELECT TABLE_SCHEMA, TABLE_NAME FROM information_schema.VIEWS WHERE TABLE_SCHEMA = 'd'"
			got, r := rowsOf(s, q)
			switch {
			case !r.OK():
				return "other", r.String()
			case sameSet(got, "d|v1"):
				return "ok", ""
			case len(got) == 0:
				return "recorded", q + " -> no rows"
			}
			return "other", fmt.Sprint(got)
		},
	},
	{
		id: kfBacktickColumn,
		setup: []string{
			"CREATE TABLE d.p (`g``h` INT NOT NULL, UNIQUE KEY k0 (`g``h`))",
			"CREATE TABLE d.t1 (`g``h` INT, b INT, KEY k1 (`g``h`), UNIQUE KEY k2 (b, `g``h`), CONSTRAINT fk1 FOREIGN KEY (b) REFERENCES d.p (`g``h`))",
		},
		observe: func(s *fx.Sess) (string, string) {
			q1 := "SELECT INDEX_NAME, SEQ_IN_INDEX, COLUMN_NAME FROM information_schema.STATISTICS WHERE TABLE_SCHEMA = 'd' AND TABLE_NAME = 't1' AND INDEX_NAME IN ('k1', 'k2')"
			got1, r := rowsOf(s, q1)
			if !r.OK() {
				return "other", r.String()
			}
			q2 := "SELECT CONSTRAINT_NAME, REFERENCED_COLUMN_NAME FROM information_schema.KEY_COLUMN_USAGE WHERE TABLE_SCHEMA = 'd' AND CONSTRAINT_NAME = 'fk1'"
			got2, r := rowsOf(s, q2)
			if !r.OK() {
				return "other", r.String()
			}
			ok1, bad1 := sameSet(got1, "k1|1|g`h", "k2|1|b", "k2|2|g`h"), sameSet(got1, "k1|1|gh", "k2|1|b", "k2|2|gh")
			ok2, bad2 := sameSet(got2, "fk1|g`h"), sameSet(got2, "fk1|gh")
			detail := fmt.Sprintf("STATISTICS -> %v; KEY_COLUMN_USAGE -> %v (the column is named g`h)", got1, got2)
			switch {
			case ok1 && ok2:
				return "ok", ""
			case (ok1 || bad1) && (ok2 || bad2):
				return "recorded", detail
			}
			return "other", detail
		},
	},
	{
		id: kfShowIndexTable,
		setup: []string{
			"CREATE TABLE d.t1 (a INT NOT NULL, b INT, PRIMARY KEY (a), KEY k1 (b))",
			"RENAME TABLE d.t1 TO d.t2",
		},
		observe: func(s *fx.Sess) (string, string) {
			r := s.Exec("SHOW INDEX FROM d.t2")
			if !r.OK() {
				return "other", r.String()
			}
			var got []string
			for _, row := range fx.NormRows(r.Schema, r.Rows) {
				got = append(got, strip(row[0])+"|"+strip(row[2]))
			}
			switch {
			case sameSet(got, "t2|PRIMARY", "t2|k1"):
				return "ok", ""
			case sameSet(got, "t2|PRIMARY", "t1|k1"):
				return "recorded", "SHOW INDEX FROM d.t2 (Table|Key_name) -> " + fmt.Sprint(got)
			}
			return "other", fmt.Sprint(got)
		},
	},
}

// TestC43Witness re-confirms the witness of every proposed finding. Finding listed: the witness
// is expected to misbehave in the recorded way (a witness that now satisfies the property is
// reported as stale, not as a failure). Finding not listed: the witness must satisfy the
// property.
func TestC43Witness(t *testing.T) {
	st := stats.New("C43", "witness")
	defer st.Flush()
	for _, w := range witnesses {
		st.Eval()
		f := fx.New(fx.Opts{DBs: dbs, Root: true})
		s := f.NewSession("root", "localhost", "d")
		setupOK := true
		for _, q := range w.setup {
			if r := s.Exec(q); !r.OK() {
				t.Errorf("%s: witness set-up statement failed: %s -> %s", w.id, q, r)
				setupOK = false
				break
			}
		}
		if setupOK {
			state, detail := w.observe(s)
			st.Class("witness:" + w.id + ":" + state)
			switch {
			case state == "ok":
				if kf.Listed(w.id) {
					t.Logf("STALE known finding %s: its witness now satisfies the property", w.id)
				} else {
					st.NonTrivial(nil, w.id)
				}
			case state == "recorded" && kf.Suppress(st, w.id):
				st.NonTrivial(nil, w.id)
				t.Logf("KNOWN-FINDING %s still reproduces: %s", w.id, detail)
			default:
				t.Errorf("witness of %s violates the property (%s): %s\n--- DDL history\n%s", w.id, state, detail, strings.Join(w.setup, ";\n"))
			}
		}
		f.Close()
	}
}
