package c43

import (
	"fmt"
	"os"
	"strings"
	"testing"

	"github.com/dolthub/go-mysql-server/vh/internal/fx"
)

// TestProbe runs the statements of $PROBE_SQL (one per line) and prints results.
func TestProbe(t *testing.T) {
	p := os.Getenv("PROBE_SQL")
	if p == "" {
		t.Skip()
	}
	b, _ := os.ReadFile(p)
	f := fx.New(fx.Opts{DBs: []string{"d", "e"}, Root: true})
	defer f.Close()
	s := f.NewSession("", "", "")
	for _, q := range strings.Split(string(b), "\n") {
		q = strings.TrimSpace(q)
		if q == "" || strings.HasPrefix(q, "#") {
			continue
		}
		r := s.Exec(q)
		fmt.Printf(">> %s\n", q)
		if r.OK() {
			for _, row := range r.Rows {
				fmt.Printf("   %v\n", row)
			}
		} else {
			fmt.Printf("   %s\n", r)
			if r.Panic != nil {
				fmt.Println(r.Stack)
			}
		}
	}
}
