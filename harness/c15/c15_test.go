// Package c15 checks property C15: a data-modifying statement that fails (constraint
// violation, duplicate key, conversion error, trigger error, or a storage error at any row)
// leaves every table it touched exactly as before - rows, index contents and query results;
// a statement that succeeds applies all of its row changes.
//
// Every case builds a small schema (parent table, target table t with secondary/unique
// indexes, CHECK, NOT NULL, FK to the parent; FK children with ON DELETE/UPDATE CASCADE and
// with RESTRICT; triggers that write to an audit table and/or SIGNAL on a poison row), draws
// one DML statement whose failing row sits at a drawn position, optionally arms an injected
// storage fault (hook H2) at the k-th row edit, and compares a snapshot of every table
// (SELECT *, COUNT(*), index-driven range / IS NULL / point lookups per index) taken before
// and after the statement.
package c15

import (
	"fmt"
	"os"
	"sort"
	"strings"
	"testing"

	"github.com/dolthub/go-mysql-server/memory"
	"github.com/dolthub/go-mysql-server/vh/internal/fx"
	"github.com/dolthub/go-mysql-server/vh/internal/kf"
	"github.com/dolthub/go-mysql-server/vh/internal/stats"
	"pgregory.net/rapid"
)

// ---- model of the tables -----------------------------------------------------------------

type trow struct {
	id, a     int
	u, c, pid *int
}

type chrow struct {
	cid int
	tid *int
	x   int
}

type arow struct {
	what   string
	tid, a int
}

type state struct {
	t     map[int]trow
	ch    map[int]chrow
	cr    map[int]int // rid -> tid
	audit []arow
}

func (s *state) clone() *state {
	c := &state{t: map[int]trow{}, ch: map[int]chrow{}, cr: map[int]int{}}
	for k, v := range s.t {
		c.t[k] = v
	}
	for k, v := range s.ch {
		c.ch[k] = v
	}
	for k, v := range s.cr {
		c.cr[k] = v
	}
	c.audit = append(c.audit, s.audit...)
	return c
}

func ip(v int) *int { return &v }

func sqlp(v *int) string {
	if v == nil {
		return "NULL"
	}
	return fmt.Sprint(*v)
}

func normp(v *int) string {
	if v == nil {
		return "N"
	}
	return fmt.Sprintf("n:%d", *v)
}

func (s *state) normT() [][]string {
	var out [][]string
	for _, r := range s.t {
		out = append(out, []string{fmt.Sprintf("n:%d", r.id), fmt.Sprintf("n:%d", r.a), normp(r.u), normp(r.c), normp(r.pid)})
	}
	return out
}

func (s *state) normCh() [][]string {
	var out [][]string
	for _, r := range s.ch {
		out = append(out, []string{fmt.Sprintf("n:%d", r.cid), normp(r.tid), fmt.Sprintf("n:%d", r.x)})
	}
	return out
}

func (s *state) normAudit() [][]string {
	var out [][]string
	for _, r := range s.audit {
		out = append(out, []string{"s:" + r.what, fmt.Sprintf("n:%d", r.tid), fmt.Sprintf("n:%d", r.a)})
	}
	return out
}

// ---- schema options ------------------------------------------------------------------------

type opts struct {
	audit  bool   // triggers write one audit row per affected row
	signal string // "", "before", "after": triggers SIGNAL on the poison row (a = 13)
	withCh bool   // FK child with ON DELETE CASCADE ON UPDATE CASCADE
	withCr bool   // FK child with RESTRICT referencing the poison row
	poison int    // index of the poison row in t (-1: none)
	inTx   bool   // the statement runs inside an explicit transaction
	preDML bool   // ... after an earlier successful statement of the same transaction
}

const poisonA = 13

func (o opts) hasTriggers() bool { return o.audit || o.signal != "" }

func (o opts) timing() string {
	if o.signal == "after" {
		return "AFTER"
	}
	return "BEFORE"
}

func (o opts) triggerDDL() []string {
	if !o.hasTriggers() {
		return nil
	}
	body := func(what, ref string) string {
		var b []string
		if o.audit {
			b = append(b, fmt.Sprintf("INSERT INTO audit VALUES ('%s', %s.id, %s.a);", what, ref, ref))
		}
		if o.signal != "" {
			b = append(b, fmt.Sprintf("IF %s.a = %d THEN SIGNAL SQLSTATE '45000' SET MESSAGE_TEXT = 'poison'; END IF;", ref, poisonA))
		}
		return "BEGIN " + strings.Join(b, " ") + " END"
	}
	return []string{
		fmt.Sprintf("CREATE TRIGGER ti %s INSERT ON t FOR EACH ROW %s", o.timing(), body("i", "NEW")),
		fmt.Sprintf("CREATE TRIGGER tu %s UPDATE ON t FOR EACH ROW %s", o.timing(), body("u", "OLD")),
		fmt.Sprintf("CREATE TRIGGER td %s DELETE ON t FOR EACH ROW %s", o.timing(), body("d", "OLD")),
	}
}

// ---- case --------------------------------------------------------------------------------

type stmt struct {
	sql      string
	kind     string              // statement shape
	failKind string              // "" = the statement is valid and must succeed
	apply    func(*state) *state // effect of a valid statement on the model (nil if not modelled)
}

type tcase struct {
	o      opts
	script []string // set-up statements (everything before the statement under test)
	init   *state   // model state after the set-up
	st     stmt
}

func tuple(r trow) string {
	return fmt.Sprintf("(%d,%d,%s,%s,%s)", r.id, r.a, sqlp(r.u), sqlp(r.c), sqlp(r.pid))
}

func drawCase(rt *rapid.T, st *stats.Collector) *tcase {
	tc := &tcase{init: &state{t: map[int]trow{}, ch: map[int]chrow{}, cr: map[int]int{}}}
	o := &tc.o
	// regions of listed findings are thinned out so that the search continues behind them
	o.audit = rapid.Bool().Draw(rt, "audit")
	if o.audit && kf.Listed(kfTrigWrites) && rapid.IntRange(0, 3).Draw(rt, "audit-keep") != 0 {
		o.audit = false
		st.Excluded("audit-writing-triggers(C23-trigger-effects-survive-failure)")
	}
	o.signal = rapid.SampledFrom([]string{"", "before", "before", "after"}).Draw(rt, "signal")
	if o.signal == "after" && kf.Listed(kfAfterTrig) && rapid.IntRange(0, 3).Draw(rt, "after-keep") != 0 {
		o.signal = "before"
		st.Excluded("signal-in-after-trigger(C23-after-trigger-failure-keeps-rows)")
	}
	o.withCh = rapid.IntRange(0, 3).Draw(rt, "withCh") != 0
	if o.withCh && kf.Listed(kfSharedIdx) && rapid.IntRange(0, 3).Draw(rt, "ch-keep") != 0 {
		o.withCh = false
		st.Excluded("fk-cascade-child-with-secondary-index(C18-stale-index-after-failed-stmt)")
	}
	o.withCr = rapid.Bool().Draw(rt, "withCr")
	o.inTx = rapid.IntRange(0, 2).Draw(rt, "inTx") == 0
	if o.inTx {
		o.preDML = rapid.Bool().Draw(rt, "preDML")
	}

	nT := rapid.IntRange(2, 6).Draw(rt, "nT")
	o.poison = rapid.IntRange(-1, nT-1).Draw(rt, "poison")
	var tt, cc, rr []string
	cid := 1
	for i := 0; i < nT; i++ {
		r := trow{id: 10 * (i + 1), a: rapid.IntRange(0, 5).Draw(rt, fmt.Sprintf("a%d", i)), c: ip(rapid.IntRange(0, 5).Draw(rt, fmt.Sprintf("c%d", i)))}
		if rapid.IntRange(0, 3).Draw(rt, fmt.Sprintf("unull%d", i)) != 0 {
			r.u = ip(i + 1)
		}
		if rapid.IntRange(0, 3).Draw(rt, fmt.Sprintf("pnull%d", i)) != 0 {
			r.pid = ip(rapid.IntRange(0, 3).Draw(rt, fmt.Sprintf("pid%d", i)))
		}
		if i == o.poison {
			r.a = poisonA
			r.c = ip(100)
		}
		tc.init.t[r.id] = r
		tt = append(tt, tuple(r))
		if o.withCh {
			for j := rapid.IntRange(0, 2).Draw(rt, fmt.Sprintf("nch%d", i)); j > 0; j-- {
				c := chrow{cid: cid, tid: ip(r.id), x: j}
				tc.init.ch[cid] = c
				cc = append(cc, fmt.Sprintf("(%d,%d,%d)", c.cid, r.id, c.x))
				cid++
			}
		}
	}
	if o.withCh && rapid.Bool().Draw(rt, "ch-null") {
		tc.init.ch[cid] = chrow{cid: cid, x: 9}
		cc = append(cc, fmt.Sprintf("(%d,NULL,9)", cid))
	}
	if o.withCr && o.poison >= 0 {
		tc.init.cr[1] = 10 * (o.poison + 1)
		rr = append(rr, fmt.Sprintf("(1,%d)", 10*(o.poison+1)))
	}
	tc.script = []string{
		"CREATE TABLE par (id INT PRIMARY KEY)",
		"INSERT INTO par VALUES (0),(1),(2),(3)",
		"CREATE TABLE t (id INT PRIMARY KEY, a INT NOT NULL, u INT, c TINYINT, pid INT, KEY ka (a), UNIQUE KEY uu (u), KEY kp (pid), CONSTRAINT chk CHECK (a < 50), CONSTRAINT fkp FOREIGN KEY (pid) REFERENCES par(id))",
		"CREATE TABLE ch (cid INT PRIMARY KEY, tid INT, x INT, KEY kt (tid), CONSTRAINT fkc FOREIGN KEY (tid) REFERENCES t(id) ON DELETE CASCADE ON UPDATE CASCADE)",
		"CREATE TABLE cr (rid INT PRIMARY KEY, tid INT, KEY kt (tid), CONSTRAINT fkr FOREIGN KEY (tid) REFERENCES t(id))",
		"CREATE TABLE audit (what VARCHAR(4), tid INT, a INT, KEY kt (tid))",
		"INSERT INTO t VALUES " + strings.Join(tt, ","),
	}
	if len(cc) > 0 {
		tc.script = append(tc.script, "INSERT INTO ch VALUES "+strings.Join(cc, ","))
	}
	if len(rr) > 0 {
		tc.script = append(tc.script, "INSERT INTO cr VALUES "+strings.Join(rr, ","))
	}
	tc.script = append(tc.script, o.triggerDDL()...)
	if o.inTx {
		tc.script = append(tc.script, "BEGIN")
		if o.preDML {
			r := trow{id: 5, a: 1, c: ip(1)}
			tc.script = append(tc.script, "INSERT INTO t VALUES "+tuple(r))
			tc.init.t[5] = r
			if o.audit {
				tc.init.audit = append(tc.init.audit, arow{"i", 5, 1})
			}
		}
	}
	tc.st = drawStmt(rt, tc)
	return tc
}

func sortedIDs(m map[int]trow) []int {
	var ids []int
	for id := range m {
		ids = append(ids, id)
	}
	sort.Ints(ids)
	return ids
}

// drawStmt draws the statement under test. Failing statements have their failing row at a
// drawn position among the rows the statement processes.
func drawStmt(rt *rapid.T, tc *tcase) stmt {
	o := tc.o
	ids := sortedIDs(tc.init.t)
	family := rapid.SampledFrom([]string{"insert", "insert", "replace", "odku", "update", "update", "keymove", "delete"}).Draw(rt, "family")
	switch family {
	case "insert", "replace", "odku":
		n := rapid.IntRange(1, 4).Draw(rt, "n")
		k := rapid.IntRange(1, n).Draw(rt, "k")
		kinds := []string{"", "check", "notnull", "conv-range", "conv-text", "fk-parent"}
		if family == "insert" {
			kinds = append(kinds, "dup-pk-existing", "dup-u-existing")
			if k >= 2 {
				kinds = append(kinds, "dup-pk-intra", "dup-u-intra")
			}
		}
		if o.signal != "" {
			kinds = append(kinds, "signal")
		}
		if family == "odku" {
			kinds = []string{"odku-check"}
		}
		fk := rapid.SampledFrom(kinds).Draw(rt, "failKind")
		var rows []trow
		var tuples []string
		for i := 0; i < n; i++ {
			r := trow{id: 100 + i, a: rapid.IntRange(0, 5).Draw(rt, fmt.Sprintf("na%d", i)), u: ip(100 + i), c: ip(rapid.IntRange(0, 5).Draw(rt, fmt.Sprintf("nc%d", i))), pid: ip(rapid.IntRange(0, 3).Draw(rt, fmt.Sprintf("np%d", i)))}
			if family == "replace" && i+1 != k && rapid.Bool().Draw(rt, fmt.Sprintf("hit%d", i)) {
				// replace an existing row (its cascade children are deleted first)
				r.id = ids[rapid.IntRange(0, len(ids)-1).Draw(rt, fmt.Sprintf("hitid%d", i))]
				dupInStmt := false
				for _, p := range rows {
					if p.id == r.id {
						dupInStmt = true
					}
				}
				if dupInStmt || (o.poison >= 0 && r.id == 10*(o.poison+1)) {
					r.id = 100 + i
				}
			}
			txt := ""
			if i+1 == k {
				switch fk {
				case "check":
					r.a = 77
				case "notnull":
					txt = fmt.Sprintf("(%d,NULL,%s,%s,%s)", r.id, sqlp(r.u), sqlp(r.c), sqlp(r.pid))
				case "conv-range":
					r.c = ip(300)
				case "conv-text":
					txt = fmt.Sprintf("(%d,'abc',%s,%s,%s)", r.id, sqlp(r.u), sqlp(r.c), sqlp(r.pid))
				case "fk-parent":
					r.pid = ip(99)
				case "dup-pk-existing":
					r.id = ids[rapid.IntRange(0, len(ids)-1).Draw(rt, "dupid")]
				case "dup-pk-intra":
					r.id = rows[rapid.IntRange(0, len(rows)-1).Draw(rt, "dupof")].id
				case "dup-u-existing":
					var us []int
					for _, id := range ids {
						if tc.init.t[id].u != nil {
							us = append(us, *tc.init.t[id].u)
						}
					}
					if len(us) == 0 {
						r.a = 77 // no unique value to collide with: fall back to the CHECK failure
					} else {
						r.u = ip(rapid.SampledFrom(us).Draw(rt, "dupu"))
					}
				case "dup-u-intra":
					r.u = rows[rapid.IntRange(0, len(rows)-1).Draw(rt, "dupof")].u
				case "signal":
					r.a = poisonA
				case "odku-check":
					r.id = ids[rapid.IntRange(0, len(ids)-1).Draw(rt, "dupid")]
				}
			}
			rows = append(rows, r)
			if txt == "" {
				txt = tuple(r)
			}
			tuples = append(tuples, txt)
		}
		s := stmt{kind: family, failKind: fk}
		switch family {
		case "insert":
			s.sql = "INSERT INTO t VALUES " + strings.Join(tuples, ",")
		case "replace":
			s.sql = "REPLACE INTO t VALUES " + strings.Join(tuples, ",")
		case "odku":
			s.sql = "INSERT INTO t VALUES " + strings.Join(tuples, ",") + " ON DUPLICATE KEY UPDATE a = a + 50"
		}
		if fk == "" && family == "insert" {
			s.apply = func(st *state) *state {
				c := st.clone()
				for _, r := range rows {
					c.t[r.id] = r
					if o.audit {
						c.audit = append(c.audit, arow{"i", r.id, r.a})
					}
				}
				return c
			}
		}
		return s

	case "update":
		lo := rapid.IntRange(0, len(ids)-1).Draw(rt, "lo")
		inRange := ids[lo:]
		poisonIn := false
		for _, id := range inRange {
			if tc.init.t[id].a == poisonA {
				poisonIn = true
			}
		}
		where := fmt.Sprintf(" WHERE id >= %d", ids[lo])
		signalFails := poisonIn && o.signal != ""
		switch rapid.SampledFrom([]string{"check", "dup-u", "notnull", "conv-range", "fk-parent"}).Draw(rt, "updKind") {
		case "check":
			s := stmt{kind: "update-a", sql: "UPDATE t SET a = a + 40" + where}
			if poisonIn {
				s.failKind = "check"
				if signalFails {
					s.failKind = "signal"
				}
				return s
			}
			s.apply = func(st *state) *state {
				c := st.clone()
				for _, id := range sortedIDs(st.t) {
					if id >= ids[lo] {
						r := c.t[id]
						if o.audit {
							c.audit = append(c.audit, arow{"u", r.id, r.a})
						}
						r.a += 40
						c.t[id] = r
					}
				}
				return c
			}
			return s
		case "dup-u":
			s := stmt{kind: "update-u", sql: "UPDATE t SET u = 777" + where}
			n := 0
			for id := range tc.init.t {
				if id >= ids[lo] {
					n++
				}
			}
			switch {
			case signalFails:
				s.failKind = "signal"
			case n >= 2:
				s.failKind = "dup-u"
			default:
				s.apply = func(st *state) *state {
					c := st.clone()
					for _, id := range sortedIDs(st.t) {
						if id >= ids[lo] {
							r := c.t[id]
							if o.audit {
								c.audit = append(c.audit, arow{"u", r.id, r.a})
							}
							r.u = ip(777)
							c.t[id] = r
						}
					}
					return c
				}
			}
			return s
		case "notnull":
			return stmt{kind: "update-null", sql: "UPDATE t SET a = NULL" + where, failKind: "notnull"}
		case "conv-range":
			s := stmt{kind: "update-c", sql: "UPDATE t SET c = c + 100" + where}
			if poisonIn {
				// 100 + 100 does not fit TINYINT; whether the UPDATE is rejected is not C15's
				// business (C27): either outcome is accepted, a failure must have no effect
				s.failKind = "?"
				if signalFails {
					s.failKind = "signal"
				}
				return s
			}
			s.apply = func(st *state) *state {
				c := st.clone()
				for _, id := range sortedIDs(st.t) {
					if id >= ids[lo] {
						r := c.t[id]
						if o.audit {
							c.audit = append(c.audit, arow{"u", r.id, r.a})
						}
						r.c = ip(*r.c + 100)
						c.t[id] = r
					}
				}
				return c
			}
			return s
		default:
			return stmt{kind: "update-pid", sql: "UPDATE t SET pid = 99" + where, failKind: "fk-parent"}
		}

	case "keymove", "delete":
		lo := rapid.IntRange(0, len(ids)-1).Draw(rt, "lo")
		fail := ""
		for _, id := range ids[lo:] {
			if tc.init.t[id].a == poisonA {
				if o.signal != "" {
					fail = "signal"
				} else if len(tc.init.cr) > 0 {
					fail = "fk-restrict"
				}
			}
		}
		if family == "keymove" {
			s := stmt{kind: "update-key-move", sql: fmt.Sprintf("UPDATE t SET id = id + 1000 WHERE id >= %d", ids[lo]), failKind: fail}
			if fail == "" {
				s.apply = func(st *state) *state {
					c := st.clone()
					for _, id := range sortedIDs(st.t) {
						if id >= ids[lo] {
							r := c.t[id]
							if o.audit {
								c.audit = append(c.audit, arow{"u", r.id, r.a})
							}
							delete(c.t, id)
							r.id += 1000
							c.t[r.id] = r
							for k, ch := range c.ch {
								if ch.tid != nil && *ch.tid == id {
									ch.tid = ip(r.id)
									c.ch[k] = ch
								}
							}
						}
					}
					return c
				}
			}
			return s
		}
		s := stmt{kind: "delete", sql: fmt.Sprintf("DELETE FROM t WHERE id >= %d", ids[lo]), failKind: fail}
		if fail == "" {
			s.apply = func(st *state) *state {
				c := st.clone()
				for _, id := range sortedIDs(st.t) {
					if id >= ids[lo] {
						r := c.t[id]
						if o.audit {
							c.audit = append(c.audit, arow{"d", r.id, r.a})
						}
						delete(c.t, id)
						for k, ch := range c.ch {
							if ch.tid != nil && *ch.tid == id {
								delete(c.ch, k)
							}
						}
					}
				}
				return c
			}
		}
		return s
	}
	panic("unreachable")
}

// ---- snapshot ----------------------------------------------------------------------------

type probe struct {
	table string
	q     string
	index bool // the query is an index-driven lookup (as opposed to the full scan / count)
}

var probes = []probe{
	{"t", "SELECT * FROM t", false},
	{"t", "SELECT COUNT(*) FROM t", false},
	{"t", "SELECT * FROM t WHERE id > -1000", true},
	{"t", "SELECT * FROM t WHERE a > -1000", true},
	{"t", "SELECT * FROM t WHERE a = 13", true},
	{"t", "SELECT * FROM t WHERE u > -1000", true},
	{"t", "SELECT * FROM t WHERE u IS NULL", true},
	{"t", "SELECT * FROM t WHERE u IN (1, 2, 100, 777)", true},
	{"t", "SELECT * FROM t WHERE pid > -1000", true},
	{"t", "SELECT * FROM t WHERE pid IS NULL", true},
	{"ch", "SELECT * FROM ch", false},
	{"ch", "SELECT COUNT(*) FROM ch", false},
	{"ch", "SELECT * FROM ch WHERE cid > -1000", true},
	{"ch", "SELECT * FROM ch WHERE tid > -1000", true},
	{"ch", "SELECT * FROM ch WHERE tid IS NULL", true},
	{"cr", "SELECT * FROM cr", false},
	{"cr", "SELECT * FROM cr WHERE tid > -1000", true},
	{"audit", "SELECT * FROM audit", false},
	{"audit", "SELECT COUNT(*) FROM audit", false},
	{"audit", "SELECT * FROM audit WHERE tid > -1000", true},
	{"par", "SELECT * FROM par", false},
}

type snapshot map[string][][]string

func takeSnapshot(s *fx.Sess) (snapshot, string) {
	snap := snapshot{}
	for _, p := range probes {
		r := s.Exec(p.q)
		if !r.OK() {
			// an error is part of the observable result of the query
			snap[p.q] = [][]string{{"ERROR", fmt.Sprint(r.Err, r.Panic)}}
			if r.Panic != nil {
				return snap, fmt.Sprintf("%s -> %s\n%s", p.q, r, r.Stack)
			}
			continue
		}
		snap[p.q] = fx.NormRows(r.Schema, r.Rows)
	}
	return snap, ""
}

// consistent checks that, inside one snapshot, the index-driven lookups of t and ch agree with
// the full scans (range lookup + IS NULL lookup = all rows).
func (sn snapshot) consistent() string {
	union := func(qs ...string) [][]string {
		var out [][]string
		for _, q := range qs {
			out = append(out, sn[q]...)
		}
		return out
	}
	for _, c := range []struct {
		full  string
		parts []string
	}{
		{"SELECT * FROM t", []string{"SELECT * FROM t WHERE id > -1000"}},
		{"SELECT * FROM t", []string{"SELECT * FROM t WHERE a > -1000"}},
		{"SELECT * FROM t", []string{"SELECT * FROM t WHERE u > -1000", "SELECT * FROM t WHERE u IS NULL"}},
		{"SELECT * FROM t", []string{"SELECT * FROM t WHERE pid > -1000", "SELECT * FROM t WHERE pid IS NULL"}},
		{"SELECT * FROM ch", []string{"SELECT * FROM ch WHERE cid > -1000"}},
		{"SELECT * FROM ch", []string{"SELECT * FROM ch WHERE tid > -1000", "SELECT * FROM ch WHERE tid IS NULL"}},
		{"SELECT * FROM cr", []string{"SELECT * FROM cr WHERE tid > -1000"}},
		{"SELECT * FROM audit", []string{"SELECT * FROM audit WHERE tid > -1000"}},
	} {
		if !fx.MultisetEqual(sn[c.full], union(c.parts...)) {
			return fmt.Sprintf("%s = %s but %s = %s", c.full, fx.Show(sn[c.full]), strings.Join(c.parts, " + "), fx.Show(union(c.parts...)))
		}
	}
	return ""
}

type diff struct {
	p             probe
	before, after [][]string
}

func diffSnap(a, b snapshot) []diff {
	var out []diff
	for _, p := range probes {
		if !fx.MultisetEqual(a[p.q], b[p.q]) {
			out = append(out, diff{p, a[p.q], b[p.q]})
		}
	}
	return out
}

func showDiffs(ds []diff) string {
	var sb strings.Builder
	for _, d := range ds {
		fmt.Fprintf(&sb, "    %s\n      before: %s\n      after:  %s\n", d.p.q, fx.Show(d.before), fx.Show(d.after))
	}
	return sb.String()
}

// superset reports whether b contains every row of a (as multisets).
func superset(b, a [][]string) bool {
	cnt := map[string]int{}
	for _, r := range b {
		cnt[strings.Join(r, "\x1f")]++
	}
	for _, r := range a {
		k := strings.Join(r, "\x1f")
		if cnt[k] == 0 {
			return false
		}
		cnt[k]--
	}
	return true
}

// ---- running a case ----------------------------------------------------------------------

type fault struct {
	table string // "" = any table
	k     int    // 0 = no fault, count only
}

type outcome struct {
	faultTable    string // table whose row edit was made to fail ("" = no fault armed)
	res           *fx.Result
	before, after snapshot
	edits         int
	fired         bool
	crash         string
	f             *fx.Fixture
	s             *fx.Sess
}

func build(tc *tcase, fail func(string, ...any)) (*fx.Fixture, *fx.Sess) {
	f := fx.New(fx.Opts{})
	s := f.NewSession("", "", "")
	s.MustExec(fail, tc.script...)
	return f, s
}

// run builds a fresh fixture, takes the snapshot, runs the statement under the fault plan and
// takes the snapshot again.
func run(tc *tcase, ft fault, fail func(string, ...any)) *outcome {
	o := &outcome{}
	o.f, o.s = build(tc, fail)
	var crash string
	o.before, crash = takeSnapshot(o.s)
	if crash != "" {
		o.crash = crash
		return o
	}
	memory.VerifSetFault(ft.table, "", ft.k)
	o.res = o.s.Exec(tc.st.sql)
	o.edits, o.fired = memory.VerifClearFault()
	if o.res.Panic != nil || o.res.TimedOut {
		o.crash = fmt.Sprintf("%s -> %s\n%s", tc.st.sql, o.res, o.res.Stack)
		return o
	}
	o.after, o.crash = takeSnapshot(o.s)
	return o
}

// countEdits runs the statement on a fresh fixture and returns the number of row edits of table.
func countEdits(tc *tcase, table string, fail func(string, ...any)) int {
	f, s := build(tc, fail)
	defer f.Close()
	memory.VerifSetFault(table, "", 0)
	s.Exec(tc.st.sql)
	n, _ := memory.VerifClearFault()
	return n
}

func (tc *tcase) describe() string {
	return fmt.Sprintf("options: %+v\nset-up:\n  %s\nstatement under test (%s, expected failure: %q):\n  %s",
		tc.o, strings.Join(tc.script, ";\n  "), tc.st.kind, tc.st.failKind, tc.st.sql)
}

// finding ids and their signatures (see notes/C15.md)
const (
	kfTrigWrites = "C23-trigger-effects-survive-failure"  // rows written by trigger bodies survive the failed statement (only additions to audit)
	kfAfterTrig  = "C23-after-trigger-failure-keeps-rows" // error raised by an AFTER trigger: the statement's own row changes survive
	kfSharedIdx  = "C18-stale-index-after-failed-stmt"    // full scans unchanged, only secondary-index lookups changed
)

// judgeNoEffect decides a failed statement: every probe must be unchanged. Deviations that
// match the signature of a listed finding are counted as known hits; anything else is fatal.
func judgeNoEffect(rt *rapid.T, st *stats.Collector, tc *tcase, o *outcome, what string) {
	ds := diffSnap(o.before, o.after)
	if len(ds) == 0 {
		return
	}
	// the error came out of the body of an AFTER trigger: its SIGNAL, or the injected storage
	// error at the trigger body's INSERT INTO audit
	afterTrig := tc.o.signal == "after" && (strings.Contains(fmt.Sprint(o.res.Err), "poison") || (o.fired && o.faultTable == "audit"))
	need := map[string]bool{}
	var unexplained []diff
	for _, d := range ds {
		switch {
		case d.p.table == "audit" && tc.o.audit && superset(o.after["SELECT * FROM audit"], o.before["SELECT * FROM audit"]) &&
			(strings.HasPrefix(d.p.q, "SELECT COUNT") || superset(d.after, d.before)):
			// signature: the audit table (written only by trigger bodies) gained rows, lost none
			need[kfTrigWrites] = true
		case afterTrig && (d.p.table == "t" || d.p.table == "ch" || d.p.table == "audit"):
			// signature: the error was raised by an AFTER trigger; the changes the statement had
			// applied to its target table (and cascade children) up to that row are kept
			need[kfAfterTrig] = true
		case d.p.index && (d.p.table == "ch" || d.p.table == "t" || d.p.table == "cr" || d.p.table == "audit") && !fullScanChanged(ds, d.p.table):
			// signature: the full scan of the table is unchanged, only a lookup through an index differs
			need[kfSharedIdx] = true
		default:
			unexplained = append(unexplained, d)
		}
	}
	if len(unexplained) == 0 {
		all := true
		for id := range need {
			if !kf.Listed(id) {
				all = false
			}
		}
		if all {
			for id := range need {
				kf.Suppress(st, id)
			}
			return
		}
	}
	var ids []string
	for id := range need {
		ids = append(ids, id)
	}
	sort.Strings(ids)
	rt.Fatalf("C15 violated: %s failed (%v) but changed the database\n%s\nrow edits seen: %d, injected fault fired: %v\nchanged probes:\n%s(signatures matched: %v; unexplained: %d)",
		what, o.res.Err, tc.describe(), o.edits, o.fired, showDiffs(ds), ids, len(unexplained))
}

func fullScanChanged(ds []diff, table string) bool {
	for _, d := range ds {
		if d.p.table == table && !d.p.index {
			return true
		}
	}
	return false
}

func checkCase(rt *rapid.T, st *stats.Collector, tc *tcase, thorough bool) {
	fail := rt.Fatalf
	// 1. natural run (fault hook in counting mode)
	nat := run(tc, fault{}, fail)
	defer nat.f.Close()
	if nat.crash != "" {
		rt.Fatalf("crash: %s\n%s", nat.crash, tc.describe())
	}
	if msg := nat.before.consistent(); msg != "" {
		rt.Fatalf("harness/precondition: indexes inconsistent before the statement: %s\n%s", msg, tc.describe())
	}
	st.Class("stmt:" + tc.st.kind)
	// Whether a statement fails is not C15's business (other properties decide that): the
	// generator's expectation is only used for the statistics. What is asserted: a statement
	// that failed changed nothing; a statement that succeeded and whose effect is modelled
	// applied all of its row changes.
	switch {
	case !nat.res.OK():
		if tc.st.failKind == "" {
			st.Class("expectation-mismatch:valid-statement-failed")
		} else {
			st.Class("natural-failure:" + tc.st.failKind)
		}
		judgeNoEffect(rt, st, tc, nat, "statement")
		if e := nat.edits; e >= 6 {
			st.Class("natural-failure-after-row-edits:6+")
		} else {
			st.Class(fmt.Sprintf("natural-failure-after-row-edits:%d", e))
		}
		if nat.edits >= 2 {
			st.NonTrivial(map[string]any{"statement": tc.st.sql, "fail": tc.st.failKind, "row_edits_before_failure": nat.edits, "in_tx": tc.o.inTx},
				tc.st.kind, tc.st.failKind, nat.edits, "natural", tc.o.audit, tc.o.signal, tc.o.withCh, tc.o.inTx)
			st.Class("nontrivial-natural")
		}
	case tc.st.failKind != "":
		st.Class("expectation-mismatch:" + tc.st.kind + "/" + tc.st.failKind + "-succeeded")
	default:
		st.Class("natural-success")
		if tc.st.apply != nil {
			want := tc.st.apply(tc.init)
			for _, c := range []struct {
				q    string
				rows [][]string
			}{{"SELECT * FROM t", want.normT()}, {"SELECT * FROM ch", want.normCh()}, {"SELECT * FROM audit", want.normAudit()}} {
				if !fx.MultisetEqual(nat.after[c.q], c.rows) {
					rt.Fatalf("C15 violated: the statement succeeded but did not apply all of its row changes\n%s\n  %s = %s\n  expected %s",
						tc.describe(), c.q, fx.Show(nat.after[c.q]), fx.Show(c.rows))
				}
			}
			if msg := nat.after.consistent(); msg != "" {
				rt.Fatalf("C15 violated: after the successful statement index lookups disagree with the table: %s\n%s", msg, tc.describe())
			}
			st.Class("success-effect-checked")
		}
	}
	if tc.o.inTx {
		// the outcome must survive COMMIT unchanged (seen from a second session)
		before := nat.after
		if r := nat.s.Exec("COMMIT"); !r.OK() {
			rt.Fatalf("COMMIT failed: %s", r)
		}
		s2 := nat.f.NewSession("", "", "")
		after, crash := takeSnapshot(s2)
		if crash != "" {
			rt.Fatalf("crash: %s\n%s", crash, tc.describe())
		}
		if ds := diffSnap(before, after); len(ds) > 0 {
			o2 := *nat
			o2.before, o2.after = before, after
			if !nat.res.OK() {
				judgeNoEffect(rt, st, tc, &o2, "(after COMMIT, seen from another session) statement")
			} else {
				rt.Fatalf("C15: state seen by another session after COMMIT differs from the transaction's own view\n%s\n%s", tc.describe(), showDiffs(ds))
			}
		}
	}

	// 2. injected storage faults: the k-th row edit of one table fails. The table is always
	// named (so that it is known whether the fault hit the target table, a cascade child or
	// the table written by a trigger body); quick draws (table, k), thorough enumerates all.
	if nat.edits == 0 {
		st.Class("no-row-edits")
		return
	}
	type plan struct {
		table string
		k, m  int
	}
	var plans []plan
	cands := []string{"t"}
	if tc.o.withCh {
		cands = append(cands, "ch")
	}
	if tc.o.audit {
		cands = append(cands, "audit")
	}
	counts := map[string]int{}
	var nonEmpty []string
	for _, tb := range cands {
		counts[tb] = countEdits(tc, tb, fail)
		if counts[tb] > 0 {
			nonEmpty = append(nonEmpty, tb)
		}
	}
	if len(nonEmpty) == 0 {
		st.Class("no-row-edits")
		return
	}
	if thorough {
		for _, tb := range nonEmpty {
			for k := 1; k <= counts[tb]; k++ {
				plans = append(plans, plan{tb, k, counts[tb]})
			}
		}
		st.Class("fault-enumeration-complete")
	} else {
		tb := rapid.SampledFrom(nonEmpty).Draw(rt, "faultTable")
		plans = []plan{{tb, rapid.IntRange(1, counts[tb]).Draw(rt, "faultK"), counts[tb]}}
	}
	for _, pl := range plans {
		table, k, m := pl.table, pl.k, pl.m
		inj := run(tc, fault{table: table, k: k}, fail)
		inj.faultTable = table
		st.EvalN(1)
		func() {
			defer inj.f.Close()
			if inj.crash != "" {
				rt.Fatalf("crash with fault at edit %d of table %q: %s\n%s", k, table, inj.crash, tc.describe())
			}
			if !inj.fired {
				// the natural failure came first in this run
				st.Class("fault-not-reached")
				return
			}
			st.Class("fault-fired:" + table)
			what := fmt.Sprintf("statement with an injected storage fault at row edit %d of %d (table filter %q)", k, m, table)
			if inj.res.OK() {
				// the storage error was swallowed: then the statement must have applied everything
				if nat.res.OK() {
					if ds := diffSnap(nat.after, inj.after); len(ds) > 0 {
						rt.Fatalf("C15 violated: %s reported success, but its effect differs from the effect of the fault-free run\n%s\ndifferences (before = fault-free run, after = run with fault):\n%s",
							what, tc.describe(), showDiffs(ds))
					}
				} else {
					rt.Fatalf("C15 violated: %s reported success although the same statement fails without the fault\n%s", what, tc.describe())
				}
				st.Class("fault-swallowed-but-complete")
				return
			}
			judgeNoEffect(rt, st, tc, inj, what)
			if k >= 2 || table != "t" {
				st.NonTrivial(map[string]any{"statement": tc.st.sql, "fault_at_edit": k, "of": m, "table": table, "in_tx": tc.o.inTx},
					tc.st.kind, tc.st.failKind, k, m, table, tc.o.audit, tc.o.signal, tc.o.withCh, tc.o.inTx)
				st.Class("nontrivial-injected")
			}
		}()
	}
}

func TestC15(t *testing.T) {
	st := stats.New("C15", "")
	defer st.Flush()
	thorough := os.Getenv("VERIF_TIER") == "thorough"
	rapid.Check(t, func(rt *rapid.T) {
		st.Eval()
		tc := drawCase(rt, st)
		checkCase(rt, st, tc, thorough)
	})
}
