package c15

import (
	"testing"

	"github.com/dolthub/go-mysql-server/vh/internal/fx"
	"github.com/dolthub/go-mysql-server/vh/internal/stats"
)

// TestReplayC15 runs the SQL witness scripts of /verif/replays/C15.
func TestReplayC15(t *testing.T) {
	st := stats.New("C15", "replay")
	defer st.Flush()
	fx.ReplayDir(t, st)
}
