package c41

import (
	"fmt"
	"strings"
	"testing"

	"github.com/dolthub/go-mysql-server/vh/internal/kf"
	"github.com/dolthub/go-mysql-server/vh/internal/stats"
)

// TestC41Known re-confirms the witness of every candidate finding: set-up statements on engine
// A, persist + LoadData into engine B, the same further statements on both, then one probe whose
// outcome must be the same on both engines.
func TestC41Known(t *testing.T) {
	st := stats.New("C41", "witness")
	defer st.Flush()
	for _, w := range []struct {
		id, what    string
		setup       []string // on A before persisting
		after       []string // on A and B after loading
		user, probe string   // decision compared on both engines
		grantsFor   string   // or: account whose SHOW GRANTS output is compared
	}{
		{kfAdmin, "WITH ADMIN OPTION of a granted role is serialised but not read back by LoadRoleEdge",
			[]string{"CREATE USER 'u'@'localhost'", "CREATE ROLE 'r'", "GRANT 'r' TO 'u'@'localhost' WITH ADMIN OPTION"}, nil,
			"u", "GRANT 'r' TO 'u'@'localhost'", ""},
		{kfCase, "loaded privilege sets are keyed by the original object name instead of its lower-case form, so a REVOKE after LoadData does not reach a grant on a database with upper-case letters",
			[]string{"CREATE USER 'u'@'localhost'", "GRANT SELECT ON `Db2`.* TO 'u'@'localhost'"},
			[]string{"REVOKE SELECT ON `Db2`.* FROM 'u'@'localhost'"},
			"u", "SELECT a FROM `Db2`.`t1`", ""},
		{kfStale, "REVOKE on a procedure with an upper-case letter in its name leaves an empty routine entry in memory that a reload drops; it is later listed as GRANT USAGE ON PROCEDURE on the original engine only",
			[]string{"CREATE USER 'u'@'localhost'", "REVOKE EXECUTE ON PROCEDURE `d1`.`Pr2` FROM 'u'@'localhost'"},
			[]string{"GRANT SELECT ON `d1`.* TO 'u'@'localhost'"},
			"", "", "'u'@'localhost'"},
	} {
		st.Eval()
		A := newEngine(t.Fatalf, true, dbsMixed, tblMixed, prcMixed)
		B := newEngine(t.Fatalf, false, dbsMixed, tblMixed, prcMixed)
		var log []string
		A.root.MustExec(t.Fatalf, w.setup...)
		if err := B.load(A.cap.data); err != nil {
			t.Fatalf("%s: LoadData: %v", w.id, err)
		}
		for _, q := range w.after {
			ra, rb := A.root.Exec(q), B.root.Exec(q)
			log = append(log, fmt.Sprintf("both: %s -> original %s, loaded %s", q, ra, rb))
		}
		var oa, ob string
		if w.grantsFor != "" {
			q := "SHOW GRANTS FOR " + w.grantsFor
			ra, rb := A.root.Exec(q), B.root.Exec(q)
			oa, ob = strings.Join(normGrants(rowsOf(ra, nil)), " | "), strings.Join(normGrants(rowsOf(rb, nil)), " | ")
			if !ra.OK() || !rb.OK() {
				t.Fatalf("%s: %s failed: %s / %s", w.id, q, ra, rb)
			}
			log = append(log, fmt.Sprintf("%s -> original engine %s; loaded engine %s", q, oa, ob))
		} else {
			sa, sb := A.f.NewSession(w.user, "localhost", ""), B.f.NewSession(w.user, "localhost", "")
			oa, ob = outcome(sa.Exec(w.probe)), outcome(sb.Exec(w.probe))
			log = append(log, fmt.Sprintf("[%s@localhost] %s -> original engine %s, loaded engine %s", w.user, w.probe, oa, ob))
		}
		A.f.Close()
		B.f.Close()
		if oa == ob {
			t.Logf("%s: not reproduced", w.id)
			continue
		}
		st.NonTrivial(map[string]any{"finding": w.id, "witness": append(append([]string{}, w.setup...), log...)}, w.id)
		if kf.Suppress(st, w.id) {
			t.Logf("KNOWN %s: %s", w.id, w.what)
			continue
		}
		t.Errorf("%s: %s\nset-up: %s\n%s", w.id, w.what, strings.Join(w.setup, "; "), strings.Join(log, "\n"))
	}
}
