// Package c41 checks property C41: persisting the accounts, roles and grants and loading them
// into a fresh engine yields the same access-control state — the same SHOW GRANTS output for
// every account and the same allow/deny decisions.
//
// A generated history of account statements (internal/privmodel) runs on engine A, whose
// MySQLDb has a capturing persister. The last captured bytes are loaded into a fresh engine B
// through MySQLDb.LoadData; A and B (and C, loaded from what B persists) are then compared.
package c41

import (
	"context"
	"errors"
	"fmt"
	"os"
	"sort"
	"strings"
	"testing"

	"github.com/dolthub/vitess/go/mysql"
	"pgregory.net/rapid"

	"github.com/dolthub/go-mysql-server/sql"
	"github.com/dolthub/go-mysql-server/vh/internal/fx"
	"github.com/dolthub/go-mysql-server/vh/internal/kf"
	pm "github.com/dolthub/go-mysql-server/vh/internal/privmodel"
	"github.com/dolthub/go-mysql-server/vh/internal/stats"
)

// Candidate findings (notes/C41.md).
const (
	kfCase  = "C41-mixed-case-object-grants-frozen-after-load" // after LoadData, GRANT/REVOKE on databases/tables/routines whose names contain upper-case letters no longer reach the loaded entries
	kfAdmin = "C41-admin-option-lost-on-load"                  // WITH ADMIN OPTION of a role edge is written but not read back
	// REVOKE ... ON PROCEDURE db.Proc (upper-case letter in the routine name) leaves an empty routine
	// entry in the account's in-memory privilege set (PrivilegeSet.RemoveRoutine deletes with the
	// name as written, the map is keyed by the lower-cased name). The entry is dropped by a
	// persist + load while the database entry around it is empty, and shows up on the original
	// engine as "GRANT USAGE ON PROCEDURE" as soon as the database entry gets a privilege.
	kfStale = "C41-mixed-case-routine-revoke-leaves-usage-entry"
)

// staleRegion: the operations that create the entry of kfStale.
func staleRegion(o pm.Op) bool {
	return o.Kind == pm.KRevoke && o.Level == pm.LRoutine && strings.ToLower(o.Obj) != o.Obj
}

// onlyUsageOnProcedure: signature of kfStale — the two states differ only in SHOW GRANTS lines
// of the form GRANT USAGE ON PROCEDURE (an entry without any privilege).
func onlyUsageOnProcedure(a, b map[string][]string) bool {
	strip := func(lines []string) string {
		var keep []string
		for _, l := range lines {
			if !strings.HasPrefix(l, "s:GRANT USAGE ON PROCEDURE ") {
				keep = append(keep, l)
			}
		}
		return strings.Join(keep, "\n")
	}
	differs := false
	for k := range a {
		if strings.Join(a[k], "\n") == strings.Join(b[k], "\n") {
			continue
		}
		if !strings.HasPrefix(k, "SHOW GRANTS") || strip(a[k]) != strip(b[k]) {
			return false
		}
		differs = true
	}
	return differs
}

var (
	dbsLower = []string{"d1", "d2"}
	dbsMixed = []string{"d1", "Db2"}
	tblLower = []string{"t1", "t2"}
	tblMixed = []string{"t1", "Tb2"}
	prcLower = []string{"p1", "p2"}
	prcMixed = []string{"p1", "Pr2"}

	privPool = []pm.Priv{pm.Select, pm.Insert, pm.Update, pm.Delete, pm.Create, pm.Drop, pm.Alter, pm.Index, pm.Execute,
		pm.CreateView, pm.References, pm.Trigger, pm.ShowView, pm.CreateRtn, pm.AlterRtn, pm.LockTables, pm.Event, pm.CreateTemp}
	userPool = []pm.Acct{
		{User: "u1", Host: "localhost"}, {User: "u1", Host: "%"}, {User: "u2", Host: "localhost"}, {User: "u3", Host: "%"},
		{User: "we`ird 'q\"", Host: "ho`st"}, {User: "üñí", Host: "%.example.com"}, {User: "", Host: "localhost"},
		{User: "a b", Host: "10.0.0.%"}, {User: "U1", Host: "localhost"}, {User: "u4", Host: "192.168.1.7"},
		{User: "u5", Host: "%"}, {User: "u6", Host: "%"},
	}
	rolePool  = []pm.Acct{{User: "r1", Host: "%"}, {User: "r2", Host: "%"}, {User: "Role 3", Host: "%"}}
	passwords = []string{"", "", "pw", "pässwörd✓", "it's"}
)

// capture keeps a copy of the bytes of the latest Persist call.
type capture struct {
	data  []byte
	calls int
}

func (c *capture) Persist(_ *sql.Context, data []byte) error {
	c.data = append([]byte(nil), data...)
	c.calls++
	return nil
}

type engine struct {
	f    *fx.Fixture
	root *fx.Sess
	cap  *capture
}

// newEngine builds an engine with the schema used by the probe battery. withRoot adds the root
// super user (engine A); loaded engines get their accounts from LoadData only.
func newEngine(fail func(string, ...any), withRoot bool, dbs, tables, procs []string) *engine {
	f := fx.New(fx.Opts{Root: withRoot, DBs: dbs})
	e := &engine{f: f, cap: &capture{}}
	f.Engine.Analyzer.Catalog.MySQLDb.SetPersister(e.cap)
	e.root = f.NewSession("root", "localhost", dbs[0])
	for _, d := range dbs {
		for _, t := range tables {
			e.root.MustExec(fail, "CREATE TABLE `"+d+"`.`"+t+"` (a INT PRIMARY KEY, b INT)", "INSERT INTO `"+d+"`.`"+t+"` VALUES (1,10),(2,20)")
		}
		for _, p := range procs {
			e.root.MustExec(fail, "CREATE PROCEDURE `"+d+"`.`"+p+"`() SELECT 1")
		}
	}
	return e
}

func (e *engine) load(data []byte) error {
	ctx := sql.NewContext(context.Background(), sql.WithSession(e.root.S))
	return e.f.Engine.Analyzer.Catalog.MySQLDb.LoadData(ctx, data)
}

// persistNow asks the engine to persist its current state (what a server does after every
// account statement) and returns the bytes.
func (e *engine) persistNow() ([]byte, error) {
	db := e.f.Engine.Analyzer.Catalog.MySQLDb
	ctx := sql.NewContext(context.Background(), sql.WithSession(e.root.S))
	ed := db.Editor()
	err := db.Persist(ctx, ed)
	ed.Close()
	return e.cap.data, err
}

func rowsOf(r *fx.Result, dropCols map[string]bool) []string {
	var out []string
	for _, row := range fx.NormRows(r.Schema, r.Rows) {
		var cells []string
		for i, c := range row {
			if dropCols[strings.ToLower(r.Schema[i].Name)] {
				continue
			}
			cells = append(cells, c)
		}
		out = append(out, strings.Join(cells, ","))
	}
	sort.Strings(out)
	return out
}

// state renders the observable access-control state: SHOW GRANTS of every account and the
// grant tables of the mysql database (without time stamps).
func (e *engine) state(fail func(string, ...any), accts []pm.Acct) map[string][]string {
	out := map[string][]string{}
	for _, a := range accts {
		q := "SHOW GRANTS FOR " + a.SQL()
		r := e.root.Exec(q)
		if r.Panic != nil {
			fail("%s: %s\n%s", q, r, r.Stack)
		}
		if r.Err != nil {
			out[q] = []string{"ERROR"}
			continue
		}
		out[q] = normGrants(rowsOf(r, nil))
	}
	for _, t := range []string{"user", "db", "tables_priv", "procs_priv", "role_edges"} {
		q := "SELECT * FROM mysql." + t
		r := e.root.Exec(q)
		if !r.OK() {
			fail("%s: %s\n%s", q, r, r.Stack)
		}
		out[q] = rowsOf(r, map[string]bool{"password_last_changed": true, "timestamp": true})
	}
	return out
}

// normGrants sorts the role list of "GRANT r1, r2 TO user" lines: the order in which the
// granted roles are listed carries no meaning (it follows an internal iteration order).
func normGrants(lines []string) []string {
	for i, l := range lines {
		if !strings.HasPrefix(l, "s:GRANT `") || strings.Contains(l, " ON ") {
			continue
		}
		j := strings.LastIndex(l, " TO ")
		if j < 0 {
			continue
		}
		roles := strings.Split(l[len("s:GRANT "):j], ", ")
		sort.Strings(roles)
		lines[i] = "s:GRANT " + strings.Join(roles, ", ") + l[j:]
	}
	sort.Strings(lines)
	return lines
}

func diffState(a, b map[string][]string) string {
	var keys []string
	for k := range a {
		keys = append(keys, k)
	}
	sort.Strings(keys)
	var sb strings.Builder
	for _, k := range keys {
		if strings.Join(a[k], "\n") != strings.Join(b[k], "\n") {
			fmt.Fprintf(&sb, "%s\n  before: %q\n  after:  %q\n", k, a[k], b[k])
		}
	}
	return sb.String()
}

func outcome(r *fx.Result) string {
	switch {
	case r.Panic != nil:
		return "panic"
	case r.TimedOut:
		return "timeout"
	case r.Err == nil:
		return "ok"
	}
	if sql.ErrPrivilegeCheckFailed.Is(r.Err) || sql.ErrDatabaseAccessDeniedForUser.Is(r.Err) || sql.ErrTableAccessDeniedForUser.Is(r.Err) {
		return "denied"
	}
	var se *mysql.SQLError
	if errors.As(r.Err, &se) && se.Num == mysql.ERAccessDeniedError {
		return "denied"
	}
	return "error"
}

type bstmt struct {
	user, addr string
	sql        string
	mixedCase  bool // names an object whose name has upper-case letters
	admin      bool // a role grant that needs WITH ADMIN OPTION
}

// battery builds the probe statements for the final model state. The same list runs on every
// engine in the same order, so side effects of permitted statements are the same everywhere.
func battery(m *pm.Model, dbs, tables, procs []string) []bstmt {
	var out []bstmt
	hasUpper := func(s ...string) bool {
		for _, x := range s {
			if strings.ToLower(x) != x {
				return true
			}
		}
		return false
	}
	k := 1000
	// at most four user accounts, those holding something (own or through a role) first
	var users []*pm.Account
	for pass := 0; pass < 2; pass++ {
		for _, a := range m.Users() {
			holds := false
			for _, d := range dbs {
				holds = holds || m.Accessible(a, d)
			}
			if holds == (pass == 0) && len(users) < 4 {
				users = append(users, a)
			}
		}
	}
	for _, a := range users {
		// the server builds sessions with the matched account's host as client address
		add := func(q string, mixed bool) {
			out = append(out, bstmt{user: a.User, addr: a.Host, sql: q, mixedCase: mixed})
		}
		for _, d := range dbs {
			add("USE `"+d+"`", hasUpper(d))
			for _, t := range tables {
				T := "`" + d + "`.`" + t + "`"
				mx := hasUpper(d, t)
				k++
				add("SELECT a FROM "+T, mx)
				add(fmt.Sprintf("INSERT INTO %s VALUES (%d, 0)", T, k), mx)
				add("UPDATE "+T+" SET b = 7", mx)
				add("CREATE INDEX ix ON "+T+" (b)", mx)
				add("ALTER TABLE "+T+" ADD COLUMN c INT", mx)
				add("TRUNCATE TABLE "+T, mx)
			}
			for _, p := range procs {
				add("CALL `"+d+"`.`"+p+"`()", hasUpper(d, p))
			}
			add("CREATE TABLE `"+d+"`.`n1` (a INT)", hasUpper(d))
			add("DROP TABLE `"+d+"`.`n1`", hasUpper(d))
		}
	}
	// role administration last (it rewrites the edge): permitted with WITH ADMIN OPTION only
	for _, e := range m.Edges {
		to := m.Get(e.To)
		if to == nil || to.IsRole {
			continue
		}
		out = append(out, bstmt{user: e.To.User, addr: e.To.Host, sql: "GRANT " + e.Role.SQL() + " TO " + e.To.SQL(), admin: true})
	}
	return out
}

func (e *engine) runBattery(fail func(string, ...any), b []bstmt) []string {
	type sk struct{ u, a string }
	sess := map[sk]*fx.Sess{}
	out := make([]string, len(b))
	for i, s := range b {
		ss := sess[sk{s.user, s.addr}]
		if ss == nil {
			ss = e.f.NewSession(s.user, s.addr, "")
			if s.user == "" {
				// fx substitutes root for an empty user name; the anonymous account needs it empty
				ss.S.SetClient(sql.Client{User: "", Address: s.addr})
			}
			ss.S.SetCurrentDatabase("")
			sess[sk{s.user, s.addr}] = ss
		}
		r := ss.Exec(s.sql)
		out[i] = outcome(r)
		if r.Panic != nil {
			fail("battery statement panicked: [%s@%s] %s\n%s", s.user, s.addr, s.sql, r.Stack)
		}
	}
	return out
}

// dynamicPrivs are the dynamic (global-only) privileges the engine knows.
var dynamicPrivs = []string{"REPLICATION_SLAVE_ADMIN", "CLONE_ADMIN"} // the two that GRANT/REVOKE accept (sql/plan/grant_data.go)

func TestC41(t *testing.T) {
	st := stats.New("C41", "")
	defer st.Flush()
	maxOps := 40
	if os.Getenv("VERIF_TIER") == "thorough" {
		maxOps = 90
	}
	rapid.Check(t, func(rt *rapid.T) {
		st.Eval()
		mixed := rapid.Bool().Draw(rt, "mixedCaseObjects")
		if mixed && kf.Listed(kfCase) {
			st.Excluded(kfCase)
			mixed = false
		}
		dbs, tables, procs := dbsLower, tblLower, prcLower
		if mixed {
			dbs, tables, procs = dbsMixed, tblMixed, prcMixed
		}
		cfg := &pm.Config{Users: userPool, Roles: rolePool, DBs: dbs, Tables: tables, Procs: procs, Privs: privPool,
			Options: true, Passwords: passwords,
			Exclude: func(_ *pm.Model, o pm.Op) string {
				if kf.Listed(kfStale) && staleRegion(o) {
					return kfStale
				}
				return ""
			},
			Excluded: func(id string) { st.Excluded(id) }}
		adminOpt := !kf.Listed(kfAdmin)
		A := newEngine(rt.Fatalf, true, dbs, tables, procs)
		defer A.f.Close()
		m := pm.New()
		var history []string
		fail := func(format string, args ...any) {
			rt.Helper()
			rt.Fatalf("%s\nhistory:\n  %s", fmt.Sprintf(format, args...), strings.Join(history, ";\n  "))
		}
		n := rapid.IntRange(3, maxOps).Draw(rt, "ops")
		for i := 0; i < n; i++ {
			op, ok := pm.Draw(rt, m, cfg)
			if !ok {
				continue
			}
			if op.Kind == pm.KGrantRole && op.GrantOption && !adminOpt {
				op.GrantOption = false
				st.Excluded(kfAdmin)
			}
			q := op.SQL()
			history = append(history, q)
			if r := A.root.Exec(q); !r.OK() {
				fail("valid account statement failed as root: %s -> %s\n%s", q, r, r.Stack)
			}
			m.Apply(op)
			st.Class("op:" + op.Kind.String())
		}
		// dynamic privileges (global only; not part of the privilege model, so they are decided by the
		// original-vs-loaded differential alone): each holder gets 0–4 of them with independently drawn
		// WITH GRANT OPTION flags, and some are revoked again
		if len(m.Accts) > 0 && rapid.IntRange(0, 2).Draw(rt, "dynamicPrivs") > 0 {
			holders := make([]pm.Acct, 0, len(m.Accts))
			for _, a := range m.Accts {
				holders = append(holders, a.Acct)
			}
			sort.Slice(holders, func(i, j int) bool { return holders[i].String() < holders[j].String() })
			k := rapid.IntRange(1, 6).Draw(rt, "dynamicStmts")
			for i := 0; i < k; i++ {
				h := rapid.SampledFrom(holders).Draw(rt, "dynHolder")
				pr := rapid.SampledFrom(dynamicPrivs).Draw(rt, "dynPriv")
				q := "GRANT " + pr + " ON *.* TO " + h.SQL()
				switch rapid.IntRange(0, 3).Draw(rt, "dynForm") {
				case 0:
					q += " WITH GRANT OPTION"
				case 1:
					q = "REVOKE " + pr + " ON *.* FROM " + h.SQL()
				}
				history = append(history, q)
				if r := A.root.Exec(q); !r.OK() {
					fail("valid account statement failed as root: %s -> %s\n%s", q, r, r.Stack)
				}
				st.Class("op:dynamic-privilege")
			}
		}
		if A.cap.calls == 0 {
			fail("the persister was never called")
		}
		data := A.cap.data

		accts := []pm.Acct{{User: "root", Host: "localhost"}}
		levels, withOpt := 0, false
		for _, a := range m.Accts {
			accts = append(accts, a.Acct)
			if l := a.Levels(); l > levels {
				levels = l
			}
			withOpt = withOpt || a.EverGrantOpt
		}
		stateA := A.state(fail, accts)

		B := newEngine(rt.Fatalf, false, dbs, tables, procs)
		defer B.f.Close()
		if err := B.load(data); err != nil {
			fail("LoadData of the persisted bytes failed: %v", err)
		}
		stateB := B.state(fail, accts)
		adminEdges := false
		for _, e := range m.Edges {
			adminEdges = adminEdges || e.WithAdmin
		}
		if d := diffState(stateA, stateB); d != "" {
			onlyEdges := adminEdges && !strings.Contains(strings.ReplaceAll(d, "SELECT * FROM mysql.role_edges", ""), "SELECT") && !strings.Contains(d, "SHOW GRANTS")
			if !(onlyEdges && kf.Suppress(st, kfAdmin)) {
				fail("access-control state differs after persist + LoadData:\n%s", d)
			}
		}

		// second generation: what B persists, loaded into C
		data2, err := B.persistNow()
		if err != nil {
			fail("Persist on the loaded engine failed: %v", err)
		}
		C := newEngine(rt.Fatalf, false, dbs, tables, procs)
		defer C.f.Close()
		if err := C.load(data2); err != nil {
			fail("LoadData of the re-persisted bytes failed: %v", err)
		}
		if d := diffState(stateB, C.state(fail, accts)); d != "" {
			fail("access-control state differs after a second persist + LoadData:\n%s", d)
		}

		// equal states must stay equal under further account statements: the same continuation of
		// the history runs on the original and on the loaded engine
		more := rapid.IntRange(0, 8).Draw(rt, "continuation")
		for i := 0; i < more; i++ {
			op, ok := pm.Draw(rt, m, cfg)
			if !ok {
				continue
			}
			if op.Kind == pm.KGrantRole && op.GrantOption && !adminOpt {
				op.GrantOption = false
			}
			q := op.SQL()
			history = append(history, "/* after load, on both engines */ "+q)
			ra, rb := A.root.Exec(q), B.root.Exec(q)
			if !ra.OK() {
				fail("valid account statement failed as root: %s -> %s\n%s", q, ra, ra.Stack)
			}
			if !rb.OK() {
				fail("account statement succeeded on the original engine but failed on the loaded engine: %s -> %s\n%s", q, rb, rb.Stack)
			}
			m.Apply(op)
		}
		if more > 0 {
			accts = []pm.Acct{{User: "root", Host: "localhost"}}
			adminEdges = false
			for _, a := range m.Accts {
				accts = append(accts, a.Acct)
			}
			for _, e := range m.Edges {
				adminEdges = adminEdges || e.WithAdmin
			}
			sa, sb := A.state(fail, accts), B.state(fail, accts)
			if d := diffState(sa, sb); d != "" {
				onlyEdges := adminEdges && !strings.Contains(strings.ReplaceAll(d, "SELECT * FROM mysql.role_edges", ""), "SELECT") && !strings.Contains(d, "SHOW GRANTS")
				switch {
				case onlyEdges && kf.Suppress(st, kfAdmin):
				case mixed && kf.Suppress(st, kfCase):
				case mixed && onlyUsageOnProcedure(sa, sb) && kf.Suppress(st, kfStale):
				default:
					fail("access-control state differs between the original and the loaded engine after the same further statements:\n%s", d)
				}
			}
			st.Class("case:continued-after-load")
		}

		// allow/deny decisions
		bat := battery(m, dbs, tables, procs)
		outA := A.runBattery(fail, bat)
		outB := B.runBattery(fail, bat)
		allowed, denied := 0, 0
		for i := range bat {
			switch outA[i] {
			case "ok":
				allowed++
			case "denied":
				denied++
			}
			if outA[i] != outB[i] {
				if bat[i].mixedCase && kf.Suppress(st, kfCase) {
					continue
				}
				if bat[i].admin && outA[i] == "ok" && outB[i] == "denied" && kf.Suppress(st, kfAdmin) {
					continue
				}
				fail("decision differs between the original and the loaded engine: [%s@%s] %s: original engine %s, loaded engine %s\n%s",
					bat[i].user, bat[i].addr, bat[i].sql, outA[i], outB[i], m.Describe())
			}
		}
		st.ClassN("battery:allowed", allowed)
		st.ClassN("battery:denied", denied)
		if mixed {
			st.Class("case:mixed-case-objects")
		}
		if withOpt {
			st.Class("case:with-grant-option")
		}
		if adminEdges {
			st.Class("case:admin-option-edge")
		}
		if len(m.Accts) >= 2 && len(m.Edges) >= 1 && levels >= 2 {
			st.NonTrivial(map[string]any{"history": history, "bytes": len(data)}, strings.Join(history, "\n"))
		}
	})
}
