package c47

import (
	"fmt"
	"sync"
	"testing"

	"pgregory.net/rapid"

	"github.com/dolthub/go-mysql-server/sql"
	imt "github.com/dolthub/go-mysql-server/sql/in_mem_table"
	"github.com/dolthub/go-mysql-server/sql/types"
	"github.com/dolthub/go-mysql-server/vh/internal/fx"
	"github.com/dolthub/go-mysql-server/vh/internal/kf"
	"github.com/dolthub/go-mysql-server/vh/internal/stats"
)

// The editor layer, set up the way sql/mysql_db sets up mysql.user + mysql.db: ONE IndexedSet
// shared by a single-row table (row = A,B,C,X; primary key (A,B) = first keyer) and a
// multi-row table (rows = A,B,item for every bit of Items). Items is not part of the main
// row, exactly as a user's database privileges are not part of its mysql.user row.

const nItems = 3

func mainRow(e elem) sql.Row { return sql.Row{e.A, e.B, e.C, e.X} }

var mainOps = imt.ValueOps[*elem]{
	ToRow: func(ctx *sql.Context, e *elem) (sql.Row, error) { return mainRow(*e), nil },
	FromRow: func(ctx *sql.Context, r sql.Row) (*elem, error) {
		if len(r) != 4 {
			return nil, fmt.Errorf("bad row")
		}
		return &elem{A: r[0].(int), B: r[1].(int), C: r[2].(int), X: r[3].(int)}, nil
	},
	// a correct "update": the row's columns replace the entry's, data outside the row is kept
	UpdateWithRow: func(ctx *sql.Context, r sql.Row, e *elem) (*elem, error) {
		if len(r) != 4 {
			return nil, fmt.Errorf("bad row")
		}
		return &elem{A: r[0].(int), B: r[1].(int), C: r[2].(int), X: r[3].(int), Items: e.Items}, nil
	},
}

var multiOps = imt.MultiValueOps[*elem]{
	ToRows: func(ctx *sql.Context, e *elem) ([]sql.Row, error) {
		var rows []sql.Row
		for i := 0; i < nItems; i++ {
			if e.Items&(1<<i) != 0 {
				rows = append(rows, sql.Row{e.A, e.B, i})
			}
		}
		return rows, nil
	},
	FromRow: func(ctx *sql.Context, r sql.Row) (*elem, error) {
		if len(r) != 3 {
			return nil, fmt.Errorf("bad row")
		}
		return &elem{A: r[0].(int), B: r[1].(int)}, nil
	},
	// like UserAddDBRow / UserRemoveDBRow: work on a copy
	AddRow: func(ctx *sql.Context, r sql.Row, e *elem) (*elem, error) {
		c := *e
		c.Items |= 1 << r[2].(int)
		return &c, nil
	},
	DeleteRow: func(ctx *sql.Context, r sql.Row, e *elem) (*elem, error) {
		c := *e
		c.Items &^= 1 << r[2].(int)
		return &c, nil
	},
}

var mainSchema = sql.Schema{
	{Name: "a", Type: types.Int64, Source: "m", PrimaryKey: true},
	{Name: "b", Type: types.Int64, Source: "m", PrimaryKey: true},
	{Name: "c", Type: types.Int64, Source: "m"},
	{Name: "x", Type: types.Int64, Source: "m"},
}
var multiSchema = sql.Schema{
	{Name: "a", Type: types.Int64, Source: "mi", PrimaryKey: true},
	{Name: "b", Type: types.Int64, Source: "mi", PrimaryKey: true},
	{Name: "item", Type: types.Int64, Source: "mi", PrimaryKey: true},
}

type tableEditor interface {
	sql.RowInserter
	sql.RowUpdater
	sql.RowDeleter
}

type editorFixture struct {
	ctx   *sql.Context
	set   imt.IndexedSet[*elem]
	idx   []indexSpec
	main  *imt.IndexedSetTable[*elem]
	multi *imt.MultiIndexedSetTable[*elem]
	me    tableEditor
	mue   tableEditor
}

func newEditorFixture() *editorFixture {
	f := &editorFixture{ctx: sql.NewEmptyContext()}
	f.idx = indexSpecs([]int{0, 2, 1}) // (A,B) primary, C and A secondary
	f.idx[0].unique = true
	keyers := make([]imt.Keyer[*elem], len(f.idx))
	for i := range f.idx {
		keyers[i] = f.idx[i].keyer
	}
	f.set = imt.NewIndexedSet[*elem](elemEq, keyers)
	var mu sync.RWMutex
	f.main = imt.NewIndexedSetTable[*elem]("m", mainSchema, sql.Collation_Default, f.set, mainOps, &mu, mu.RLocker())
	f.multi = imt.NewMultiIndexedSetTable[*elem]("mi", multiSchema, sql.Collation_Default, f.set, multiOps, &mu, mu.RLocker())
	f.me = f.main.Editor()
	f.mue = f.multi.Editor()
	return f
}

func rowsOf(t interface {
	Partitions(*sql.Context) (sql.PartitionIter, error)
	PartitionRows(*sql.Context, sql.Partition) (sql.RowIter, error)
}, ctx *sql.Context) ([]string, error) {
	pi, err := t.Partitions(ctx)
	if err != nil {
		return nil, err
	}
	var out []string
	for {
		p, err := pi.Next(ctx)
		if err != nil {
			break
		}
		ri, err := t.PartitionRows(ctx, p)
		if err != nil {
			return nil, err
		}
		for {
			r, err := ri.Next(ctx)
			if err != nil {
				break
			}
			out = append(out, fmt.Sprint([]any(r)))
		}
		ri.Close(ctx)
	}
	pi.Close(ctx)
	return out, nil
}

func sameStrings(a, b []string) bool {
	if len(a) != len(b) {
		return false
	}
	c := map[string]int{}
	for _, x := range a {
		c[x]++
	}
	for _, x := range b {
		c[x]--
	}
	for _, v := range c {
		if v != 0 {
			return false
		}
	}
	return true
}

func (f *editorFixture) check(fail func(string, ...any), hist *[]string, m *model) {
	checkAll(fail, hist, f.set, f.idx, m)
	var wantMain, wantMulti []string
	for _, e := range m.els {
		wantMain = append(wantMain, fmt.Sprint([]any(mainRow(e))))
		for i := 0; i < nItems; i++ {
			if e.Items&(1<<i) != 0 {
				wantMulti = append(wantMulti, fmt.Sprint([]any{e.A, e.B, i}))
			}
		}
	}
	got, err := rowsOf(f.main, f.ctx)
	if err != nil || !sameStrings(got, wantMain) {
		fail("history %v\nrows of the main table = %v (err %v), model %v", *hist, got, err, wantMain)
	}
	got, err = rowsOf(f.multi, f.ctx)
	if err != nil || !sameStrings(got, wantMulti) {
		fail("history %v\nrows of the multi table = %v (err %v), model %v", *hist, got, err, wantMulti)
	}
}

func (m *model) byPK(a, b int) (elem, bool) {
	for _, e := range m.els {
		if e.A == a && e.B == b {
			return e, true
		}
	}
	return elem{}, false
}

// hiddenData is the region of proposed finding C47-update-stale-remove: the stored entry
// carries data that its main-table row does not show, so FromRow(ToRow(stored)) is not Equals
// to the stored entry.
func hiddenData(e elem) bool { return e.Items != 0 }

func TestC47Editors(t *testing.T) {
	st := stats.New("C47", "editors")
	defer st.Flush()
	rapid.Check(t, func(rt *rapid.T) {
		st.Eval()
		f := newEditorFixture()
		m := &model{}
		hist := &[]string{}
		log := func(s string, a ...any) { *hist = append(*hist, fmt.Sprintf(s, a...)) }
		nontrivial := false
		noteRemoval := func(e elem) {
			if sharesSecondary(m, f.idx, e) {
				nontrivial = true
			}
		}
		pickStored := func(rt *rapid.T) elem {
			if len(m.els) == 0 {
				rt.Skip("empty")
			}
			return rapid.SampledFrom(m.els).Draw(rt, "stored")
		}
		rt.Repeat(map[string]func(*rapid.T){
			"insert": func(rt *rapid.T) {
				e := elemGen.Draw(rt, "e")
				log("Insert%v", e)
				err := f.me.Insert(f.ctx, mainRow(e))
				if _, dup := m.byPK(e.A, e.B); dup {
					if err == nil {
						rt.Fatalf("history %v\nInsert of an existing primary key succeeded", *hist)
					}
					st.Class("op:insert-dup")
				} else {
					if err != nil {
						rt.Fatalf("history %v\nInsert failed: %v", *hist, err)
					}
					m.add(e)
					st.Class("op:insert")
				}
			},
			"delete": func(rt *rapid.T) {
				// the engine deletes rows it has read from the table; a row whose key is absent is a no-op
				var row sql.Row
				if len(m.els) > 0 && rapid.IntRange(0, 3).Draw(rt, "present") > 0 {
					e := rapid.SampledFrom(m.els).Draw(rt, "stored")
					row = mainRow(e)
				} else {
					row = mainRow(elemGen.Draw(rt, "e"))
				}
				log("Delete%v", row)
				a, b := row[0].(int), row[1].(int)
				if e, ok := m.byPK(a, b); ok {
					noteRemoval(e)
					st.Class("op:delete-present")
				} else {
					st.Class("op:delete-absent")
				}
				if err := f.me.Delete(f.ctx, row); err != nil {
					rt.Fatalf("history %v\nDelete failed: %v", *hist, err)
				}
				m.removeIf(func(e elem) bool { return e.A == a && e.B == b })
			},
			"update": func(rt *rapid.T) {
				// precondition (engine): old is a row read from the table, i.e. ToRow(stored);
				// the new primary key is the old one or a free one
				old := pickStored(rt)
				ne := elemGen.Draw(rt, "new")
				if rapid.Bool().Draw(rt, "samePK") {
					ne.A, ne.B = old.A, old.B
				}
				if x, taken := m.byPK(ne.A, ne.B); taken && x != old {
					rt.Skip("new key taken")
				}
				if hiddenData(old) {
					// known finding C47-update-stale-remove: excluded by construction,
					// re-confirmed by TestC47UpdateWitness
					st.Excluded("C47-update-stale-remove")
					rt.Skip("region of C47-update-stale-remove")
				}
				log("Update%v->%v", mainRow(old), mainRow(ne))
				noteRemoval(old)
				if err := f.me.Update(f.ctx, mainRow(old), mainRow(ne)); err != nil {
					rt.Fatalf("history %v\nUpdate failed: %v", *hist, err)
				}
				m.remove(old)
				ne.Items = old.Items
				m.add(ne)
				st.Class("op:update")
			},
			"multiInsert": func(rt *rapid.T) {
				a := rapid.IntRange(0, dom-1).Draw(rt, "A")
				b := rapid.IntRange(0, dom-1).Draw(rt, "B")
				if len(m.els) > 0 && rapid.Bool().Draw(rt, "stored") {
					e := rapid.SampledFrom(m.els).Draw(rt, "e")
					a, b = e.A, e.B
				}
				it := rapid.IntRange(0, nItems-1).Draw(rt, "item")
				log("MultiInsert(%d,%d,%d)", a, b, it)
				err := f.mue.Insert(f.ctx, sql.Row{a, b, it})
				if e, ok := m.byPK(a, b); ok {
					if err != nil {
						rt.Fatalf("history %v\nMultiInsert failed: %v", *hist, err)
					}
					noteRemoval(e)
					m.remove(e)
					e.Items |= 1 << it
					m.add(e)
					st.Class("op:multi-insert")
				} else if err == nil {
					rt.Fatalf("history %v\nMultiInsert for an absent entry succeeded", *hist)
				}
			},
			"multiDelete": func(rt *rapid.T) {
				a := rapid.IntRange(0, dom-1).Draw(rt, "A")
				b := rapid.IntRange(0, dom-1).Draw(rt, "B")
				if len(m.els) > 0 && rapid.Bool().Draw(rt, "stored") {
					e := rapid.SampledFrom(m.els).Draw(rt, "e")
					a, b = e.A, e.B
				}
				it := rapid.IntRange(0, nItems-1).Draw(rt, "item")
				log("MultiDelete(%d,%d,%d)", a, b, it)
				err := f.mue.Delete(f.ctx, sql.Row{a, b, it})
				if e, ok := m.byPK(a, b); ok {
					if err != nil {
						rt.Fatalf("history %v\nMultiDelete failed: %v", *hist, err)
					}
					m.remove(e)
					e.Items &^= 1 << it
					m.add(e)
					st.Class("op:multi-delete")
				} else if err == nil {
					rt.Fatalf("history %v\nMultiDelete for an absent entry succeeded", *hist)
				}
			},
			"multiUpdate": func(rt *rapid.T) {
				// both entries exist (a row read from the multi table, moved to an existing entry)
				src := pickStored(rt)
				dst := pickStored(rt)
				if src.Items == 0 {
					rt.Skip("no item rows")
				}
				var its []int
				for i := 0; i < nItems; i++ {
					if src.Items&(1<<i) != 0 {
						its = append(its, i)
					}
				}
				it := rapid.SampledFrom(its).Draw(rt, "item")
				nit := rapid.IntRange(0, nItems-1).Draw(rt, "newItem")
				log("MultiUpdate(%d,%d,%d)->(%d,%d,%d)", src.A, src.B, it, dst.A, dst.B, nit)
				if err := f.mue.Update(f.ctx, sql.Row{src.A, src.B, it}, sql.Row{dst.A, dst.B, nit}); err != nil {
					rt.Fatalf("history %v\nMultiUpdate failed: %v", *hist, err)
				}
				if src == dst {
					m.remove(src)
					src.Items &^= 1 << it
					src.Items |= 1 << nit
					m.add(src)
				} else {
					m.remove(src)
					m.remove(dst)
					src.Items &^= 1 << it
					dst.Items |= 1 << nit
					m.add(src)
					m.add(dst)
				}
				st.Class("op:multi-update")
			},
			"removeManySecondary": func(rt *rapid.T) {
				// direct container use next to the editors, as Editor.RemoveRoleEdgesToKey does
				i := rapid.IntRange(1, len(f.idx)-1).Draw(rt, "index")
				k := rapid.SampledFrom(f.idx[i].keys).Draw(rt, "key")
				log("RemoveMany(%s,%+v)", f.idx[i].name, k)
				for _, e := range m.where(func(e elem) bool { return f.idx[i].keyOf(e) == k }) {
					noteRemoval(e)
				}
				f.set.RemoveMany(f.idx[i].keyer, k)
				m.removeIf(func(e elem) bool { return f.idx[i].keyOf(e) == k })
				st.Class("op:removeMany")
			},
			"truncate": func(rt *rapid.T) {
				if rapid.IntRange(0, 11).Draw(rt, "really") != 0 {
					rt.Skip("rarely")
				}
				log("Truncate")
				n, err := f.main.Truncate(f.ctx)
				if err != nil || n != len(m.els) {
					rt.Fatalf("history %v\nTruncate = (%d, %v), model had %d entries", *hist, n, err, len(m.els))
				}
				m.els = nil
				st.Class("op:truncate")
			},
			"": func(rt *rapid.T) {
				f.check(rt.Fatalf, hist, m)
			},
		})
		if nontrivial {
			st.NonTrivial(map[string]any{"history": *hist}, *hist)
		}
	})
}

// TestC47UpdateWitness re-confirms proposed finding C47-update-stale-remove at the package
// level: Update of an entry that carries data outside its row leaves the old entry in the
// set next to the new one.
//
//	Insert(0,0,0,0); MultiInsert(0,0,item 0); Update((0,0,0,0) -> (0,0,0,1))
//
// required: exactly one entry under primary key (0,0); observed: two.
func TestC47UpdateWitness(t *testing.T) {
	st := stats.New("C47", "update-witness")
	defer st.Flush()
	for _, withHidden := range []bool{false, true} {
		st.Eval()
		f := newEditorFixture()
		m := &model{}
		hist := &[]string{"Insert(0,0,0,0)"}
		must := func(err error) {
			if err != nil {
				t.Fatalf("history %v: %v", *hist, err)
			}
		}
		must(f.me.Insert(f.ctx, sql.Row{0, 0, 0, 0}))
		e := elem{}
		if withHidden {
			*hist = append(*hist, "MultiInsert(0,0,0)")
			must(f.mue.Insert(f.ctx, sql.Row{0, 0, 0}))
			e.Items = 1
		}
		*hist = append(*hist, "Update(0,0,0,0)->(0,0,0,1)")
		must(f.me.Update(f.ctx, sql.Row{0, 0, 0, 0}, sql.Row{0, 0, 0, 1}))
		e.X = 1
		m.add(e)
		var msg string
		f.check(func(s string, a ...any) {
			if msg == "" {
				msg = fmt.Sprintf(s, a...)
			}
		}, hist, m)
		st.NonTrivial(nil, withHidden)
		if msg == "" {
			continue
		}
		// signature: entry with hidden data, deviation directly after the editor Update, and the
		// deviation is precisely "the pre-update entry is still stored"
		stale := f.set.GetMany(keyerAB{}, kAB{0, 0})
		sig := withHidden && len(stale) == 2
		if sig && kf.Suppress(st, "C47-update-stale-remove") {
			t.Logf("KNOWN C47-update-stale-remove: %s", msg)
			continue
		}
		t.Fatalf("editor Update: %s", msg)
	}
}

// TestReplayC47 runs the SQL-level witnesses in /verif/replays/C47.
func TestReplayC47(t *testing.T) {
	st := stats.New("C47", "replay")
	defer st.Flush()
	fx.ReplayDir(t, st)
}
