// Package c47 checks property C47: the in-memory IndexedSet / MultiMap containers used for
// the system (grant) tables behave like sets — for every key of every index GetMany returns
// exactly the elements currently stored under that key, and Count/Put/Remove/RemoveMany (and
// the table editors built on them) change the container exactly as a set model would.
//
// Technique: rapid state machines (rt.Repeat) against a plain slice/map model; after every
// step every key of every index over the whole (small) key domain is queried.
package c47

import (
	"fmt"
	"sort"
	"strings"
	"testing"

	"pgregory.net/rapid"

	imt "github.com/dolthub/go-mysql-server/sql/in_mem_table"
	"github.com/dolthub/go-mysql-server/vh/internal/stats"
)

// elem mirrors the production element shape (*mysql_db.User, *RoleEdge): a pointer to a
// struct, compared field by field (RoleEdgeEquals is `*l == *r`), keyed by structs of its
// fields. Items is data that is not part of the main table row (like a user's database
// privileges, which live in the rows of mysql.db, not of mysql.user).
type elem struct {
	A, B, C, X int
	Items      uint8
}

func (e elem) String() string {
	if e.Items != 0 {
		return fmt.Sprintf("(%d,%d,%d,%d|%03b)", e.A, e.B, e.C, e.X, e.Items)
	}
	return fmt.Sprintf("(%d,%d,%d,%d)", e.A, e.B, e.C, e.X)
}

func elemEq(a, b *elem) bool { return *a == *b }

type kA struct{ A int }
type kAB struct{ A, B int }
type kC struct{ C int }

type keyerA struct{}
type keyerAB struct{}
type keyerC struct{}
type keyerForeign struct{ _ int } // never registered in a set

func (keyerA) GetKey(e *elem) any       { return kA{e.A} }
func (keyerAB) GetKey(e *elem) any      { return kAB{e.A, e.B} }
func (keyerC) GetKey(e *elem) any       { return kC{e.C} }
func (keyerForeign) GetKey(e *elem) any { return 0 }

const dom = 3 // A, B, C in 0..dom-1

var elemGen = rapid.Custom(func(rt *rapid.T) elem {
	return elem{
		A: rapid.IntRange(0, dom-1).Draw(rt, "A"),
		B: rapid.IntRange(0, dom-1).Draw(rt, "B"),
		C: rapid.IntRange(0, dom-1).Draw(rt, "C"),
		X: rapid.IntRange(0, 1).Draw(rt, "X"),
	}
})

// model is the reference: a multiset-free list of element values (a set under ==).
type model struct{ els []elem }

func (m *model) has(e elem) bool {
	for _, x := range m.els {
		if x == e {
			return true
		}
	}
	return false
}
func (m *model) add(e elem) { m.els = append(m.els, e) }
func (m *model) remove(e elem) bool {
	for i, x := range m.els {
		if x == e {
			m.els = append(m.els[:i:i], m.els[i+1:]...)
			return true
		}
	}
	return false
}
func (m *model) removeIf(f func(elem) bool) (removed []elem) {
	var keep []elem
	for _, x := range m.els {
		if f(x) {
			removed = append(removed, x)
		} else {
			keep = append(keep, x)
		}
	}
	m.els = keep
	return
}
func (m *model) where(f func(elem) bool) []elem {
	var out []elem
	for _, x := range m.els {
		if f(x) {
			out = append(out, x)
		}
	}
	return out
}

func show(es []elem) string {
	s := make([]string, len(es))
	for i, e := range es {
		s[i] = e.String()
	}
	sort.Strings(s)
	return "{" + strings.Join(s, " ") + "}"
}

// sameMultiset compares the pointers returned by the container with the model values; nil
// pointers (a corrupted internal slice) never match.
func sameMultiset(got []*elem, want []elem) (string, bool) {
	cnt := map[elem]int{}
	for _, w := range want {
		cnt[w]++
	}
	vals := make([]elem, 0, len(got))
	ok := len(got) == len(want)
	for _, g := range got {
		if g == nil {
			return "container returned a nil element", false
		}
		vals = append(vals, *g)
		cnt[*g]--
	}
	for _, c := range cnt {
		if c != 0 {
			ok = false
		}
	}
	return show(vals), ok
}

type indexSpec struct {
	name   string
	keyer  imt.Keyer[*elem]
	keys   []any
	keyOf  func(elem) any
	unique bool
}

func indexSpecs(order []int) []indexSpec {
	all := []indexSpec{
		{name: "AB", keyer: keyerAB{}, keyOf: func(e elem) any { return kAB{e.A, e.B} }},
		{name: "A", keyer: keyerA{}, keyOf: func(e elem) any { return kA{e.A} }},
		{name: "C", keyer: keyerC{}, keyOf: func(e elem) any { return kC{e.C} }},
	}
	for a := 0; a < dom; a++ {
		all[1].keys = append(all[1].keys, kA{a})
		all[2].keys = append(all[2].keys, kC{a})
		for b := 0; b < dom; b++ {
			all[0].keys = append(all[0].keys, kAB{a, b})
		}
	}
	all[0].keys = append(all[0].keys, kAB{99, 99}, kA{0}) // never used / a key of another index's type
	all[1].keys = append(all[1].keys, kA{99})
	all[2].keys = append(all[2].keys, kC{99}, nil)
	out := make([]indexSpec, len(order))
	for i, o := range order {
		out[i] = all[o]
	}
	return out
}

// checkAll queries every key of every index, Count and VisitEntries, and then scribbles over
// every returned slice (the statement's "exactly the elements currently stored" must keep
// holding afterwards: returned slices are copies).
func checkAll(fail func(string, ...any), hist *[]string, set imt.IndexedSet[*elem], idx []indexSpec, m *model) {
	for _, ix := range idx {
		for _, k := range ix.keys {
			got := set.GetMany(ix.keyer, k)
			want := m.where(func(e elem) bool { return ix.keyOf(e) == k })
			if s, ok := sameMultiset(got, want); !ok {
				fail("history %v\nGetMany(index %s, key %+v) = %s, model has %s (model set %s)", *hist, ix.name, k, s, show(want), show(m.els))
			}
			for i := range got {
				got[i] = nil
			}
		}
	}
	if c := set.Count(); c != len(m.els) {
		fail("history %v\nCount() = %d, model has %d elements %s", *hist, c, len(m.els), show(m.els))
	}
	var visited []*elem
	set.VisitEntries(func(e *elem) { visited = append(visited, e) })
	if s, ok := sameMultiset(visited, m.els); !ok {
		fail("history %v\nVisitEntries = %s, model has %s", *hist, s, show(m.els))
	}
	if got := set.GetMany(keyerForeign{}, 0); got != nil {
		fail("history %v\nGetMany with a keyer that is not part of the set returned %d elements", *hist, len(got))
	}
}

// sharesSecondary reports whether some other element of the model shares a key of a
// non-first index with e (the situation the non-trivial rule asks for).
func sharesSecondary(m *model, idx []indexSpec, e elem) bool {
	for _, x := range m.els {
		if x == e {
			continue
		}
		for _, ix := range idx[1:] {
			if ix.keyOf(x) == ix.keyOf(e) {
				return true
			}
		}
	}
	return false
}

// TestC47 — IndexedSet used directly, with the call protocol of sql/mysql_db.
func TestC47(t *testing.T) {
	st := stats.New("C47", "")
	defer st.Flush()
	rapid.Check(t, func(rt *rapid.T) {
		st.Eval()
		nIdx := rapid.IntRange(1, 3).Draw(rt, "nIdx")
		order := rapid.Permutation([]int{0, 1, 2}).Draw(rt, "order")[:nIdx]
		idx := indexSpecs(order)
		keyers := make([]imt.Keyer[*elem], len(idx))
		for i := range idx {
			keyers[i] = idx[i].keyer
		}
		set := imt.NewIndexedSet[*elem](elemEq, keyers)
		keyers[0] = keyerForeign{} // NewIndexedSet copies the slice
		m := &model{}
		hist := &[]string{fmt.Sprintf("indexes=%v", order)}
		log := func(f string, a ...any) { *hist = append(*hist, fmt.Sprintf(f, a...)) }
		nontrivial := false

		// upsert is the protocol of mysql_db.Editor.PutUser / PutRoleEdge / PutReplicaSourceInfo:
		//   if old, ok := set.Get(v); ok { set.Remove(old) }; set.Put(v)
		upsert := func(p *elem) {
			if old, ok := set.Get(p); ok {
				set.Remove(old)
			}
			set.Put(p)
		}

		rt.Repeat(map[string]func(*rapid.T){
			"putFresh": func(rt *rapid.T) {
				// precondition (every caller): the element is not in the set (CREATE USER checks
				// for the user first; the editors check the primary key; PutUser removes first)
				if len(m.els) > 40 { // 54 possible elements: keep the filter below cheap
					rt.Skip("nearly full")
				}
				e := elemGen.Filter(func(e elem) bool { return !m.has(e) }).Draw(rt, "e")
				log("Put%v", e)
				p := e
				set.Put(&p)
				m.add(e)
				st.Class("op:put")
			},
			"upsert": func(rt *rapid.T) {
				e := elemGen.Draw(rt, "e")
				log("Upsert%v", e)
				p := e
				upsert(&p)
				if !m.has(e) {
					m.add(e)
				}
				st.Class("op:upsert")
			},
			"mutateUpsert": func(rt *rapid.T) {
				// GRANT etc.: fetch the stored pointer, change non-key data in place, PutUser it
				if len(m.els) == 0 {
					rt.Skip("empty")
				}
				e := rapid.SampledFrom(m.els).Draw(rt, "e")
				ne := e
				ne.X = 1 - ne.X
				if m.has(ne) {
					rt.Skip("would collide")
				}
				log("MutateUpsert%v->X=%d", e, ne.X)
				probe := e
				p, ok := set.Get(&probe)
				if !ok || p == nil {
					rt.Fatalf("history %v\nGet%v = not found, model has it", *hist, e)
				}
				p.X = ne.X
				upsert(p)
				m.remove(e)
				m.add(ne)
				st.Class("op:mutate-upsert")
			},
			"remove": func(rt *rapid.T) {
				var e elem
				if len(m.els) > 0 && rapid.IntRange(0, 3).Draw(rt, "present") > 0 {
					e = rapid.SampledFrom(m.els).Draw(rt, "e")
				} else {
					e = elemGen.Draw(rt, "e")
				}
				log("Remove%v", e)
				if m.has(e) && sharesSecondary(m, idx, e) && len(idx) > 1 {
					nontrivial = true
				}
				p := e
				res, found := set.Remove(&p)
				want := m.remove(e)
				if found != want {
					rt.Fatalf("history %v\nRemove%v reported found=%v, model says %v", *hist, e, found, want)
				}
				if found && (res == nil || *res != e) {
					rt.Fatalf("history %v\nRemove%v returned element %v", *hist, e, res)
				}
				if want {
					st.Class("op:remove-present")
				} else {
					st.Class("op:remove-absent")
				}
			},
			"removeMany": func(rt *rapid.T) {
				i := rapid.IntRange(0, len(idx)-1).Draw(rt, "index")
				k := rapid.SampledFrom(idx[i].keys).Draw(rt, "key")
				log("RemoveMany(%s,%+v)", idx[i].name, k)
				removed := m.where(func(e elem) bool { return idx[i].keyOf(e) == k })
				for _, e := range removed {
					if len(idx) > 1 && sharesSecondary(m, idx, e) {
						nontrivial = true
					}
				}
				set.RemoveMany(idx[i].keyer, k)
				m.removeIf(func(e elem) bool { return idx[i].keyOf(e) == k })
				st.Class(fmt.Sprintf("op:removeMany-%d", min(len(removed), 3)))
			},
			"removeManyForeign": func(rt *rapid.T) {
				log("RemoveMany(foreign keyer)")
				set.RemoveMany(keyerForeign{}, 0)
			},
			"get": func(rt *rapid.T) {
				var e elem
				if len(m.els) > 0 && rapid.Bool().Draw(rt, "present") {
					e = rapid.SampledFrom(m.els).Draw(rt, "e")
				} else {
					e = elemGen.Draw(rt, "e")
				}
				p := e
				res, found := set.Get(&p)
				if found != m.has(e) || (found && (res == nil || *res != e)) {
					rt.Fatalf("history %v\nGet%v = (%v, %v), model has it: %v", *hist, e, res, found, m.has(e))
				}
			},
			"clear": func(rt *rapid.T) {
				if rapid.IntRange(0, 11).Draw(rt, "really") != 0 {
					rt.Skip("rarely")
				}
				log("Clear")
				set.Clear()
				m.els = nil
				st.Class("op:clear")
			},
			"": func(rt *rapid.T) {
				checkAll(rt.Fatalf, hist, set, idx, m)
			},
		})
		st.Class(fmt.Sprintf("indexes:%d", len(idx)))
		if nontrivial {
			st.NonTrivial(map[string]any{"history": *hist}, *hist)
		}
	})
}

// TestC47MultiMap — MultiMap used directly (its only production caller is IndexedSet, whose
// protocol is: Put(k, v) only for a v not stored under k).
func TestC47MultiMap(t *testing.T) {
	st := stats.New("C47", "multimap")
	defer st.Flush()
	type kv struct {
		k any
		v elem
	}
	keys := []any{kA{0}, kA{1}, kC{0}, kAB{0, 1}, 7, "s", nil}
	rapid.Check(t, func(rt *rapid.T) {
		st.Eval()
		mm := imt.NewMultiMap[elem](func(a, b elem) bool { return a == b })
		var m []kv
		var hist []string
		nontrivial := false
		has := func(k any, v elem) bool {
			for _, x := range m {
				if x.k == k && x.v == v {
					return true
				}
			}
			return false
		}
		under := func(k any) []elem {
			var out []elem
			for _, x := range m {
				if x.k == k {
					out = append(out, x.v)
				}
			}
			return out
		}
		vgen := rapid.Custom(func(rt *rapid.T) elem {
			return elem{A: rapid.IntRange(0, 2).Draw(rt, "A"), X: rapid.IntRange(0, 1).Draw(rt, "X")}
		})
		rt.Repeat(map[string]func(*rapid.T){
			"put": func(rt *rapid.T) {
				k := rapid.SampledFrom(keys).Draw(rt, "k")
				v := vgen.Draw(rt, "v")
				if has(k, v) {
					rt.Skip("present")
				}
				hist = append(hist, fmt.Sprintf("Put(%+v,%v)", k, v))
				mm.Put(k, v)
				m = append(m, kv{k, v})
			},
			"remove": func(rt *rapid.T) {
				k := rapid.SampledFrom(keys).Draw(rt, "k")
				v := vgen.Draw(rt, "v")
				if len(m) > 0 && rapid.IntRange(0, 3).Draw(rt, "present") > 0 {
					x := rapid.SampledFrom(m).Draw(rt, "stored")
					k, v = x.k, x.v
				}
				hist = append(hist, fmt.Sprintf("Remove(%+v,%v)", k, v))
				want := has(k, v)
				if want && len(under(k)) > 1 {
					nontrivial = true
				}
				res, found := mm.Remove(k, v)
				if found != want || (found && res != v) {
					rt.Fatalf("history %v\nRemove = (%v,%v), model present=%v", hist, res, found, want)
				}
				var keep []kv
				for _, x := range m {
					if !(x.k == k && x.v == v) {
						keep = append(keep, x)
					}
				}
				m = keep
			},
			"get": func(rt *rapid.T) {
				k := rapid.SampledFrom(keys).Draw(rt, "k")
				v := vgen.Draw(rt, "v")
				res, found := mm.Get(k, v)
				if found != has(k, v) || (found && res != v) {
					rt.Fatalf("history %v\nGet(%+v,%v) = (%v,%v), model present=%v", hist, k, v, res, found, has(k, v))
				}
			},
			"clear": func(rt *rapid.T) {
				if rapid.IntRange(0, 11).Draw(rt, "really") != 0 {
					rt.Skip("rarely")
				}
				hist = append(hist, "Clear")
				mm.Clear()
				m = nil
			},
			"": func(rt *rapid.T) {
				for _, k := range keys {
					got := mm.GetMany(k)
					ptrs := make([]*elem, len(got))
					for i := range got {
						ptrs[i] = &got[i]
					}
					if s, ok := sameMultiset(ptrs, under(k)); !ok {
						rt.Fatalf("history %v\nGetMany(%+v) = %s, model %s", hist, k, s, show(under(k)))
					}
					for i := range got {
						got[i] = elem{A: -1}
					}
				}
				var all, wantAll []elem
				mm.VisitEntries(func(e elem) { all = append(all, e) })
				for _, x := range m {
					wantAll = append(wantAll, x.v)
				}
				ptrs := make([]*elem, len(all))
				for i := range all {
					ptrs[i] = &all[i]
				}
				if s, ok := sameMultiset(ptrs, wantAll); !ok {
					rt.Fatalf("history %v\nVisitEntries = %s, model %s", hist, s, show(wantAll))
				}
			},
		})
		if nontrivial {
			st.NonTrivial(map[string]any{"history": hist}, hist)
		}
	})
}
