package c51

import (
	"fmt"
	"os"
	"strings"
	"testing"

	"github.com/dolthub/go-mysql-server/vh/internal/fx"
)

func TestProbe(t *testing.T) {
	if os.Getenv("PROBE") == "" {
		t.Skip()
	}
	f := fx.New(fx.Opts{})
	defer f.Close()
	s := f.NewSession("", "", "")
	for _, q := range strings.Split(os.Getenv("PROBE"), ";;") {
		r := s.Exec(q)
		fmt.Printf("%-100.100s -> %.300s\n", q, r)
		if r.Panic != nil {
			fmt.Println(r.Stack[:1500])
		}
	}
}
