package c51

import (
	"fmt"
	"io"
	"os"
	"sort"
	"strconv"
	"strings"
	"testing"

	"github.com/dolthub/go-mysql-server/vh/internal/fx"
	"github.com/dolthub/go-mysql-server/vh/internal/kf"
	"github.com/dolthub/go-mysql-server/vh/internal/stats"
	"github.com/sirupsen/logrus"
	"pgregory.net/rapid"
)

func TestMain(m *testing.M) {
	logrus.SetOutput(io.Discard)
	os.Exit(m.Run())
}

// ------------------------------------------------------------------------------------------
// Reference tokenizer: the rule documented in sql/fulltext/default_parser.go, for ASCII input.
// A word is a maximal run of letters, digits and '_', in which a single apostrophe may join
// two such runs (don't); apostrophes at the ends are not part of the word; words shorter than
// three characters are dropped.

func isWordChar(c byte) bool {
	return c == '_' || c >= '0' && c <= '9' || c >= 'a' && c <= 'z' || c >= 'A' && c <= 'Z'
}

func refTokens(doc string) []string {
	var out []string
	i := 0
	for i < len(doc) {
		if !isWordChar(doc[i]) {
			i++
			continue
		}
		j := i
		for j < len(doc) {
			if isWordChar(doc[j]) {
				j++
			} else if doc[j] == '\'' && j+1 < len(doc) && isWordChar(doc[j+1]) {
				j += 2
			} else {
				break
			}
		}
		if j-i >= 3 {
			out = append(out, doc[i:j])
		}
		i = j
	}
	return out
}

// collation equality of the reference: _bin compares bytes; utf8mb4_0900_ai_ci on the ASCII
// vocabulary used here differs from it only by ignoring letter case.
func fold(word string, ci bool) string {
	if ci {
		return strings.ToLower(word)
	}
	return word
}

func tokenSet(ci bool, cols ...*string) map[string]bool {
	m := map[string]bool{}
	for _, c := range cols {
		if c == nil {
			continue
		}
		for _, w := range refTokens(*c) {
			m[fold(w, ci)] = true
		}
	}
	return m
}

// ------------------------------------------------------------------------------------------

type doc struct {
	title, body *string
	n           int
}

type ftIndex struct {
	name string
	cols []string // "title", "body"
}

type model struct {
	ci      bool
	ciTable bool // the case-insensitive collation is the table default (else declared per column)
	rows    map[int]*doc
	indexes []ftIndex
	extra   bool // column z added
}

func (m *model) colDefs() string {
	coll := ""
	if m.ci && !m.ciTable {
		coll = " COLLATE utf8mb4_0900_ai_ci"
	}
	s := "id INT PRIMARY KEY, title VARCHAR(200)" + coll + ", body TEXT" + coll + ", n INT"
	if m.extra {
		s += ", z INT"
	}
	return s
}

func (m *model) createTable(name string) []string {
	tcoll := ""
	if m.ci && m.ciTable {
		tcoll = " COLLATE utf8mb4_0900_ai_ci"
	}
	out := []string{"CREATE TABLE " + name + " (" + m.colDefs() + ")" + tcoll}
	for _, ix := range m.indexes {
		out = append(out, "ALTER TABLE "+name+" ADD FULLTEXT INDEX "+ix.name+" ("+strings.Join(ix.cols, ", ")+")")
	}
	return out
}

func sqlStr(p *string) string {
	if p == nil {
		return "NULL"
	}
	return "'" + strings.ReplaceAll(strings.ReplaceAll(*p, "\\", "\\\\"), "'", "''") + "'"
}

func (m *model) ids() []int {
	var ids []int
	for id := range m.rows {
		ids = append(ids, id)
	}
	sort.Ints(ids)
	return ids
}

func (m *model) insertAll(name string) string {
	ids := m.ids()
	if len(ids) == 0 {
		return ""
	}
	var vs []string
	for _, id := range ids {
		d := m.rows[id]
		vs = append(vs, fmt.Sprintf("(%d, %s, %s, %d)", id, sqlStr(d.title), sqlStr(d.body), d.n))
	}
	return "INSERT INTO " + name + " (id, title, body, n) VALUES " + strings.Join(vs, ", ")
}

func (d *doc) col(name string) *string {
	if name == "title" {
		return d.title
	}
	return d.body
}

// expected ids for a search over the columns of one index.
func (m *model) expected(ix ftIndex, search string) (ids []int, multi map[int]int) {
	want := tokenSet(m.ci, &search)
	multi = map[int]int{}
	for _, id := range m.ids() {
		d := m.rows[id]
		var cols []*string
		for _, c := range ix.cols {
			cols = append(cols, d.col(c))
		}
		have := tokenSet(m.ci, cols...)
		k := 0
		for w := range want {
			if have[w] {
				k++
			}
		}
		if k > 0 {
			ids = append(ids, id)
			multi[id] = k
		}
	}
	return ids, multi
}

// ------------------------------------------------------------------------------------------
// Generators.

var vocab = []string{"cat", "Cat", "CAT", "dog", "fish", "bird", "it", "is", "ab", "a1b", "x_y", "don't", "2024", "hello_world", "Dog", "mouse"}
var absent = []string{"zebra", "ca", "cats", "ird", "hello", "world", "don", "x_y_z"}
var seps = []string{" ", " ", " ", ", ", ". ", "-", "\n", "  ", "! ", " (", ") ", "/", "'", " '", "' "}

func genDoc(rt *rapid.T, label string) *string {
	if rapid.IntRange(0, 9).Draw(rt, label+"-null") == 0 {
		return nil
	}
	n := rapid.IntRange(0, 8).Draw(rt, label+"-n")
	var sb strings.Builder
	for i := 0; i < n; i++ {
		if i > 0 {
			sb.WriteString(rapid.SampledFrom(seps).Draw(rt, label+"-sep"))
		}
		sb.WriteString(rapid.SampledFrom(vocab).Draw(rt, label+"-w"))
	}
	s := sb.String()
	return &s
}

func genSearch(rt *rapid.T) string {
	n := rapid.IntRange(1, 3).Draw(rt, "sn")
	var sb strings.Builder
	for i := 0; i < n; i++ {
		if i > 0 {
			sb.WriteString(rapid.SampledFrom([]string{" ", ", ", "-", "  "}).Draw(rt, "ssep"))
		}
		if rapid.IntRange(0, 4).Draw(rt, "sabsent") == 0 {
			sb.WriteString(rapid.SampledFrom(absent).Draw(rt, "sw"))
		} else {
			sb.WriteString(rapid.SampledFrom(vocab).Draw(rt, "sw"))
		}
	}
	return sb.String()
}

func genIndexes(rt *rapid.T) []ftIndex {
	switch rapid.IntRange(0, 3).Draw(rt, "ixshape") {
	case 0:
		return []ftIndex{{"ft", []string{"title"}}}
	case 1:
		return []ftIndex{{"ft", []string{"title", "body"}}}
	case 2:
		return []ftIndex{{"ft", []string{"title"}}, {"ft2", []string{"body"}}}
	default:
		return []ftIndex{{"ft", []string{"title", "body"}}, {"ft2", []string{"title"}}}
	}
}

// ------------------------------------------------------------------------------------------

func idsOf(r *fx.Result) []int {
	var out []int
	for _, row := range fx.NormRows(r.Schema, r.Rows) {
		v, err := strconv.Atoi(strings.TrimPrefix(row[0], "n:"))
		if err != nil {
			return nil
		}
		out = append(out, v)
	}
	sort.Ints(out)
	return out
}

func dedupe(xs []int) []int {
	var out []int
	for i, x := range xs {
		if i == 0 || x != xs[i-1] {
			out = append(out, x)
		}
	}
	return out
}

func eqInts(a, b []int) bool {
	if len(a) != len(b) {
		return false
	}
	for i := range a {
		if a[i] != b[i] {
			return false
		}
	}
	return true
}

const dupFinding = "C51-dup-rows"

// dropConfigFinding: dropping a FULLTEXT index that sorts before another FULLTEXT index of the
// table also drops the shared config table; the next DML on the table panics.
const dropConfigFinding = "C51-drop-shared-config"

func dropConfigWitness(fail func(string, ...any)) (bool, string) {
	f := fx.New(fx.Opts{})
	defer f.Close()
	s := f.NewSession("", "", "")
	s.MustExec(fail,
		"CREATE TABLE t (id INT PRIMARY KEY, title VARCHAR(200), body TEXT, FULLTEXT KEY ft (title), FULLTEXT KEY ft2 (body))",
		"INSERT INTO t VALUES (1, 'cat', 'fish')",
		"ALTER TABLE t DROP INDEX ft")
	r := s.Exec("SELECT id FROM t WHERE MATCH(body) AGAINST ('fish')")
	u := s.Exec("UPDATE t SET body = 'dog' WHERE id = 1")
	ok := r.OK() && eqInts(idsOf(r), []int{1}) && u.OK()
	return !ok, fmt.Sprintf("FULLTEXT ft(title), ft2(body); ALTER TABLE t DROP INDEX ft; then MATCH(body) AGAINST ('fish') -> %s ; UPDATE t SET body = 'dog' -> %s", r, u)
}

// rewriteFinding: a table rewrite (ALTER TABLE ... DROP COLUMN) rebuilds the full-text tables
// with the table's default collation instead of the collation of the indexed columns.
const rewriteFinding = "C51-rewrite-collation"

func rewriteWitness(fail func(string, ...any)) (bool, string) {
	f := fx.New(fx.Opts{})
	defer f.Close()
	s := f.NewSession("", "", "")
	s.MustExec(fail,
		"CREATE TABLE t (id INT PRIMARY KEY, title VARCHAR(200) COLLATE utf8mb4_0900_ai_ci, z INT, FULLTEXT KEY ft (title))",
		"INSERT INTO t VALUES (1, 'Cat', 0)")
	r0 := s.Exec("SELECT id FROM t WHERE MATCH(title) AGAINST ('cat')")
	s.MustExec(fail, "ALTER TABLE t DROP COLUMN z")
	r := s.Exec("SELECT id FROM t WHERE MATCH(title) AGAINST ('cat')")
	if !r.OK() || !r0.OK() {
		fail("witness query failed: %s / %s", r0, r)
	}
	return !eqInts(idsOf(r), []int{1}), fmt.Sprintf("title VARCHAR COLLATE utf8mb4_0900_ai_ci holding 'Cat': MATCH(title) AGAINST ('cat') returned %v before and %v after ALTER TABLE t DROP COLUMN z (expected [1] both times)", idsOf(r0), idsOf(r))
}

// upsertFinding: REPLACE / INSERT ... ON DUPLICATE KEY UPDATE on an existing key leaves the
// full-text entries of the rejected row behind (MultiTableEditor.Insert writes the full-text
// tables before the parent table reports the duplicate key).
const upsertFinding = "C51-upsert-stale"

// upsertWitness reports whether the defect reproduces.
func upsertWitness(fail func(string, ...any)) (bool, string) {
	f := fx.New(fx.Opts{})
	defer f.Close()
	s := f.NewSession("", "", "")
	s.MustExec(fail,
		"CREATE TABLE t (id INT PRIMARY KEY, title VARCHAR(200), FULLTEXT KEY ft (title))",
		"INSERT INTO t VALUES (1, 'bird')",
		"INSERT INTO t (id, title) VALUES (1, 'cat') ON DUPLICATE KEY UPDATE title = 'dog'")
	r := s.Exec("SELECT id FROM t WHERE MATCH(title) AGAINST ('cat')")
	if !r.OK() {
		fail("witness query failed: %s", r)
	}
	return len(r.Rows) != 0, fmt.Sprintf("rows (1,'bird'); INSERT INTO t (id, title) VALUES (1, 'cat') ON DUPLICATE KEY UPDATE title = 'dog'; SELECT id FROM t WHERE MATCH(title) AGAINST ('cat') returned %v, expected no row (title is 'dog')", idsOf(r))
}

// countsFinding: creating a FULLTEXT index on a table that already has one re-inserts every
// row into the existing index's tables too: every row is counted twice there, so its global
// word counts are doubled (wrong, even negative relevance) and a later UPDATE/DELETE of such a
// row only decrements the row counter and leaves the old words in the index.
const countsFinding = "C51-create-doubles-counts"

func countsWitness(fail func(string, ...any)) (bool, string) {
	f := fx.New(fx.Opts{})
	defer f.Close()
	s := f.NewSession("", "", "")
	s.MustExec(fail,
		"CREATE TABLE t (id INT PRIMARY KEY, title VARCHAR(200), body TEXT, FULLTEXT KEY ft (title))",
		"INSERT INTO t VALUES (1, 'cat', 'fish')",
		"CREATE FULLTEXT INDEX ft2 ON t (body)",
		"UPDATE t SET title = 'dog' WHERE id = 1")
	r := s.Exec("SELECT id FROM t WHERE MATCH(title) AGAINST ('cat')")
	if !r.OK() {
		fail("witness query failed: %s", r)
	}
	return len(r.Rows) != 0, fmt.Sprintf("FULLTEXT ft(title), row (1,'cat','fish'); CREATE FULLTEXT INDEX ft2 ON t (body); UPDATE t SET title = 'dog' WHERE id = 1; SELECT id FROM t WHERE MATCH(title) AGAINST ('cat') returned %v, expected no row (title is 'dog')", idsOf(r))
}

type checker struct {
	st   *stats.Collector
	fail func(string, ...any)
	s    *fx.Sess
	m    *model
	hist []string
}

func (c *checker) history() string { return "  " + strings.Join(c.hist, ";\n  ") }

func (c *checker) exec(q string) *fx.Result {
	c.hist = append(c.hist, q)
	r := c.s.Exec(q)
	if r.Panic != nil || r.TimedOut {
		c.fail("statement crashed: %s\n%s\nhistory:\n%s", r, r.Stack, c.history())
	}
	return r
}

func (c *checker) must(q string) {
	if r := c.exec(q); !r.OK() {
		c.fail("statement of the generated history failed: %s -> %s\nhistory:\n%s", q, r, c.history())
	}
}

// checkSearch runs one search against every index, on the incrementally maintained table t and
// on a twin table tw built from scratch with the same rows, and compares both with the reference.
// It returns the expected ids of the first index (for the non-trivial rule).
func (c *checker) checkSearch(search string, mode string) {
	for _, ix := range c.m.indexes {
		want, multi := c.m.expected(ix, search)
		cols := strings.Join(ix.cols, ", ")
		against := "AGAINST (" + sqlStr(&search) + mode + ")"
		for _, tbl := range []string{"t", "tw"} {
			q := "SELECT id FROM " + tbl + " WHERE MATCH(" + cols + ") " + against
			r := c.s.Exec(q)
			if !r.OK() {
				c.fail("search failed: %s -> %s\n%s\nhistory:\n%s", q, r, r.Stack, c.history())
			}
			got := idsOf(r)
			if !eqInts(dedupe(got), want) {
				c.fail("%s\n  returned ids %v, rows containing a search word: %v (table %s; tw is the twin rebuilt from scratch)\nhistory:\n%s", q, got, want, tbl, c.history())
			}
			if len(got) != len(want) {
				// a row is returned more than once
				sig := true
				cnt := map[int]int{}
				for _, id := range got {
					cnt[id]++
				}
				for id, k := range cnt {
					if k != multi[id] {
						sig = false
					}
				}
				// signature of C51-dup-rows: every row is returned once per distinct search
				// word it contains
				if !(sig && kf.Suppress(c.st, dupFinding)) {
					c.fail("%s\n  returned ids %v: rows are returned more than once (expected each of %v once)\nhistory:\n%s", q, got, want, c.history())
				}
			}
		}
		// relevance: "zero relevance means no similarity" - positive exactly for the matching
		// rows; and, since t and its twin hold the same rows, the same value from both indexes
		rel := map[string]map[int]float64{}
		for _, tbl := range []string{"t", "tw"} {
			q := "SELECT id, MATCH(" + cols + ") " + against + " FROM " + tbl
			r := c.s.Exec(q)
			if !r.OK() {
				c.fail("search failed: %s -> %s\nhistory:\n%s", q, r, c.history())
			}
			rel[tbl] = map[int]float64{}
			var pos []int
			for _, row := range fx.NormRows(r.Schema, r.Rows) {
				id, _ := strconv.Atoi(strings.TrimPrefix(row[0], "n:"))
				f, err := strconv.ParseFloat(strings.TrimPrefix(row[1], "f:"), 64)
				if err != nil {
					c.fail("%s: relevance %q is not a number", q, row[1])
				}
				rel[tbl][id] = f
				if f > 0 {
					pos = append(pos, id)
				}
			}
			sort.Ints(pos)
			if !eqInts(pos, want) {
				c.fail("%s\n  relevance by id %v: rows with positive relevance %v, rows containing a search word: %v (table %s; tw is the twin rebuilt from scratch)\nhistory:\n%s", q, rel[tbl], pos, want, tbl, c.history())
			}
		}
		for id, f := range rel["t"] {
			g := rel["tw"][id]
			if d := f - g; d > 1e-6*(1+g) || -d > 1e-6*(1+g) {
				c.fail("MATCH(%s) %s: relevance of row %d is %v from the incrementally maintained index and %v from the index of the twin table built from scratch with the same rows\nhistory:\n%s", cols, against, id, f, g, c.history())
			}
		}
	}
}

func (c *checker) rebuildTwin() {
	c.s.Exec("DROP TABLE IF EXISTS tw")
	for _, q := range c.m.createTable("tw") {
		if r := c.s.Exec(q); !r.OK() {
			c.fail("twin set-up failed: %s -> %s", q, r)
		}
	}
	if q := c.m.insertAll("tw"); q != "" {
		if r := c.s.Exec(q); !r.OK() {
			c.fail("twin set-up failed: %s -> %s", q, r)
		}
	}
}

func TestC51(t *testing.T) {
	st := stats.New("C51", "")
	defer st.Flush()
	maxSteps := 8
	if os.Getenv("VERIF_TIER") == "thorough" {
		maxSteps = 14
	}
	// region of C51-upsert-stale (REPLACE / ON DUPLICATE KEY UPDATE on an existing key) is
	// excluded by construction while the finding reproduces and is listed
	upsertRepro, _ := upsertWitness(t.Fatalf)
	excludeUpsertConflicts := upsertRepro && kf.Listed(upsertFinding)
	rewriteRepro, _ := rewriteWitness(t.Fatalf)
	excludeRewrite := rewriteRepro && kf.Listed(rewriteFinding)
	dropRepro, _ := dropConfigWitness(t.Fatalf)
	excludeDropFirst := dropRepro && kf.Listed(dropConfigFinding)
	countsRepro, _ := countsWitness(t.Fatalf)
	excludeCounts := countsRepro && kf.Listed(countsFinding)
	rapid.Check(t, func(rt *rapid.T) {
		st.Eval()
		f := fx.New(fx.Opts{})
		defer f.Close()
		m := &model{ci: rapid.Bool().Draw(rt, "ci"), ciTable: rapid.Bool().Draw(rt, "ciTable"), rows: map[int]*doc{}, indexes: genIndexes(rt)}
		c := &checker{st: st, fail: rt.Fatalf, s: f.NewSession("", "", ""), m: m}
		for _, q := range m.createTable("t") {
			c.must(q)
		}
		// words of documents that were updated away or deleted
		former := map[string]bool{}
		noteFormer := func(d *doc) {
			for w := range tokenSet(m.ci, d.title, d.body) {
				former[w] = true
			}
		}
		nontrivial := false
		nextID := 1
		steps := rapid.IntRange(1, maxSteps).Draw(rt, "steps")
		for step := 0; step < steps; step++ {
			ids := m.ids()
			pickID := func() int {
				if len(ids) == 0 || rapid.IntRange(0, 9).Draw(rt, "missing") == 0 {
					return 99
				}
				return rapid.SampledFrom(ids).Draw(rt, "id")
			}
			op := rapid.SampledFrom([]string{"insert", "insert", "insert", "insert-multi", "update-title", "update-title", "update-body", "update-n", "update-all", "delete", "delete", "delete-where-n", "replace", "odku", "insert-dup", "truncate", "reindex", "alter-unrelated"}).Draw(rt, "op")
			st.Class("op:" + op)
			switch op {
			case "insert", "insert-multi":
				k := 1
				if op == "insert-multi" {
					k = rapid.IntRange(2, 4).Draw(rt, "k")
				}
				var vs []string
				for i := 0; i < k; i++ {
					d := &doc{title: genDoc(rt, "title"), body: genDoc(rt, "body"), n: rapid.IntRange(0, 2).Draw(rt, "n")}
					vs = append(vs, fmt.Sprintf("(%d, %s, %s, %d)", nextID, sqlStr(d.title), sqlStr(d.body), d.n))
					m.rows[nextID] = d
					nextID++
				}
				c.must("INSERT INTO t (id, title, body, n) VALUES " + strings.Join(vs, ", "))
			case "update-title", "update-body":
				id := pickID()
				nd := genDoc(rt, "new")
				col := strings.TrimPrefix(op, "update-")
				c.must(fmt.Sprintf("UPDATE t SET %s = %s WHERE id = %d", col, sqlStr(nd), id))
				if d, ok := m.rows[id]; ok {
					noteFormer(d)
					if col == "title" {
						d.title = nd
					} else {
						d.body = nd
					}
				}
			case "update-n":
				id := pickID()
				c.must(fmt.Sprintf("UPDATE t SET n = n + 1 WHERE id = %d", id))
				if d, ok := m.rows[id]; ok {
					d.n++
				}
			case "update-all":
				nd := genDoc(rt, "new")
				n := rapid.IntRange(0, 2).Draw(rt, "n")
				c.must(fmt.Sprintf("UPDATE t SET title = %s WHERE n = %d", sqlStr(nd), n))
				for _, d := range m.rows {
					if d.n == n {
						noteFormer(d)
						d.title = nd
					}
				}
			case "delete":
				id := pickID()
				c.must(fmt.Sprintf("DELETE FROM t WHERE id = %d", id))
				if d, ok := m.rows[id]; ok {
					noteFormer(d)
					delete(m.rows, id)
				}
			case "delete-where-n":
				n := rapid.IntRange(0, 2).Draw(rt, "n")
				c.must(fmt.Sprintf("DELETE FROM t WHERE n = %d", n))
				for id, d := range m.rows {
					if d.n == n {
						noteFormer(d)
						delete(m.rows, id)
					}
				}
			case "replace":
				id := pickID()
				if id != 99 && excludeUpsertConflicts {
					st.Excluded(upsertFinding)
					id = 99
				}
				if id == 99 {
					id = nextID
					nextID++
				}
				d := &doc{title: genDoc(rt, "title"), body: genDoc(rt, "body"), n: rapid.IntRange(0, 2).Draw(rt, "n")}
				c.must(fmt.Sprintf("REPLACE INTO t (id, title, body, n) VALUES (%d, %s, %s, %d)", id, sqlStr(d.title), sqlStr(d.body), d.n))
				if old, ok := m.rows[id]; ok {
					noteFormer(old)
				}
				m.rows[id] = d
			case "odku":
				id := pickID()
				if id != 99 && excludeUpsertConflicts {
					st.Excluded(upsertFinding)
					id = 99
				}
				if id == 99 {
					id = nextID
					nextID++
				}
				d := &doc{title: genDoc(rt, "title"), body: genDoc(rt, "body"), n: 0}
				nt := genDoc(rt, "new")
				c.must(fmt.Sprintf("INSERT INTO t (id, title, body, n) VALUES (%d, %s, %s, 0) ON DUPLICATE KEY UPDATE title = %s", id, sqlStr(d.title), sqlStr(d.body), sqlStr(nt)))
				if old, ok := m.rows[id]; ok {
					noteFormer(old)
					old.title = nt
				} else {
					m.rows[id] = d
				}
			case "insert-dup":
				// a statement that fails must leave table and index alone
				if len(ids) == 0 {
					continue
				}
				id := rapid.SampledFrom(ids).Draw(rt, "id")
				nd := genDoc(rt, "title")
				r := c.exec(fmt.Sprintf("INSERT INTO t (id, title, body, n) VALUES (%d, %s, NULL, 0), (%d, %s, NULL, 0)", nextID+50, sqlStr(nd), id, sqlStr(nd)))
				if r.OK() {
					rt.Fatalf("duplicate primary key accepted\nhistory:\n%s", c.history())
				}
				// whether the first row of the failed statement stays is C15's subject; read
				// it back and follow the table
				rr := c.s.Exec(fmt.Sprintf("SELECT COUNT(*) FROM t WHERE id = %d", nextID+50))
				if rr.OK() && len(rr.Rows) == 1 && fx.Norm(rr.Rows[0][0], nil) == "n:1" {
					m.rows[nextID+50] = &doc{title: nd}
					st.Class("failed-insert-left-first-row")
				}
			case "truncate":
				c.must("TRUNCATE TABLE t")
				for id, d := range m.rows {
					noteFormer(d)
					delete(m.rows, id)
				}
			case "reindex":
				ix := rapid.IntRange(0, len(m.indexes)-1).Draw(rt, "ix")
				if excludeCounts && len(m.indexes) > 1 && len(m.rows) > 0 {
					// creating an index while another one exists and the table has rows is the
					// region of C51-create-doubles-counts: the other index is corrupt afterwards
					st.Excluded(countsFinding)
					continue
				}
				if excludeDropFirst && len(m.indexes) > 1 && ix == 0 {
					// indexes are named ft < ft2: dropping ft while ft2 exists is the region
					st.Excluded(dropConfigFinding)
					ix = 1
				}
				c.must("ALTER TABLE t DROP INDEX " + m.indexes[ix].name)
				cols := rapid.SampledFrom([][]string{{"title"}, {"title", "body"}, {"body"}, {"body", "title"}}).Draw(rt, "newcols")
				// two indexes over the same column list are not distinguishable by MATCH
				same := false
				for j, o := range m.indexes {
					if j != ix && strings.Join(o.cols, ",") == strings.Join(cols, ",") {
						same = true
					}
				}
				if same {
					cols = m.indexes[ix].cols
				}
				m.indexes[ix].cols = cols
				if rapid.Bool().Draw(rt, "createsyntax") {
					c.must("CREATE FULLTEXT INDEX " + m.indexes[ix].name + " ON t (" + strings.Join(cols, ", ") + ")")
				} else {
					c.must("ALTER TABLE t ADD FULLTEXT INDEX " + m.indexes[ix].name + " (" + strings.Join(cols, ", ") + ")")
				}
			case "alter-unrelated":
				if m.ci && !m.ciTable && excludeRewrite {
					st.Excluded(rewriteFinding)
					continue
				}
				if !m.extra {
					c.must("ALTER TABLE t ADD COLUMN z INT")
					m.extra = true
				} else {
					c.must("ALTER TABLE t DROP COLUMN z")
					m.extra = false
				}
			}
			// the table itself must hold the model's rows (otherwise nothing below means anything)
			r := c.s.Exec("SELECT id FROM t")
			if !r.OK() || !eqInts(idsOf(r), m.ids()) {
				rt.Fatalf("table content diverged from the model: %s, model ids %v\nhistory:\n%s", r, m.ids(), c.history())
			}
			c.rebuildTwin()
			nq := rapid.IntRange(1, 3).Draw(rt, "nq")
			for i := 0; i < nq; i++ {
				search := genSearch(rt)
				mode := rapid.SampledFrom([]string{"", " IN NATURAL LANGUAGE MODE"}).Draw(rt, "mode")
				c.checkSearch(search, mode)
				for w := range tokenSet(m.ci, &search) {
					if former[w] {
						nontrivial = true
					}
				}
			}
		}
		st.Class(fmt.Sprintf("indexes:%d", len(m.indexes)))
		if m.ci && m.ciTable {
			st.Class("collation:ai_ci-table-default")
		} else if m.ci {
			st.Class("collation:ai_ci-column")
		} else {
			st.Class("collation:bin")
		}
		if nontrivial {
			st.NonTrivial(nil, strings.Join(c.hist, ";"))
		}
	})
}

// TestC51Known re-confirms the witnesses of the proposed findings.
func TestC51Known(t *testing.T) {
	st := stats.New("C51", "known")
	defer st.Flush()
	for _, w := range []struct {
		id string
		fn func(func(string, ...any)) (bool, string)
	}{
		{dupFinding, dupWitness}, {upsertFinding, upsertWitness}, {rewriteFinding, rewriteWitness}, {dropConfigFinding, dropConfigWitness}, {countsFinding, countsWitness},
	} {
		st.Eval()
		repro, desc := w.fn(t.Fatalf)
		if !repro {
			t.Logf("finding %s no longer reproduces", w.id)
			st.Class("witness-fixed:" + w.id)
			continue
		}
		st.Class("witness-reproduces:" + w.id)
		st.NonTrivial(nil, w.id)
		if !kf.Suppress(st, w.id) {
			t.Errorf("finding %s reproduces and is not listed as known: %s", w.id, desc)
		}
	}
}

func dupWitness(fail func(string, ...any)) (bool, string) {
	f := fx.New(fx.Opts{})
	defer f.Close()
	s := f.NewSession("", "", "")
	s.MustExec(fail,
		"CREATE TABLE t (id INT PRIMARY KEY, title VARCHAR(200), FULLTEXT KEY ft (title))",
		"INSERT INTO t VALUES (1, 'cat dog'), (2, 'fish')")
	r := s.Exec("SELECT id FROM t WHERE MATCH(title) AGAINST ('cat dog')")
	if !r.OK() {
		fail("witness query failed: %s", r)
	}
	got := idsOf(r)
	return !eqInts(got, []int{1}), fmt.Sprintf("SELECT id FROM t WHERE MATCH(title) AGAINST ('cat dog') over rows (1,'cat dog'),(2,'fish') returned ids %v, expected [1]", got)
}
