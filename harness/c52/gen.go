// Package c52 checks C52: geometry values round-trip through their text (WKT) and binary
// (WKB) forms, and spatial index lookups return the same rows as the predicate evaluated
// directly.
package c52

import (
	"encoding/binary"
	"encoding/hex"
	"math"
	"strconv"
	"strings"

	"pgregory.net/rapid"
)

// Geometry kinds; the numbers are the WKB type codes.
const (
	kPoint = 1 + iota
	kLine
	kPoly
	kMPoint
	kMLine
	kMPoly
	kColl
)

var kindName = map[int]string{kPoint: "POINT", kLine: "LINESTRING", kPoly: "POLYGON", kMPoint: "MULTIPOINT",
	kMLine: "MULTILINESTRING", kMPoly: "MULTIPOLYGON", kColl: "GEOMETRYCOLLECTION"}

// pt is one coordinate pair; the coordinates are kept as the decimal text the generator chose,
// so that the harness never formats a float: both sides of every comparison are printed by the
// engine. a is the first coordinate in the WKT (x, or the latitude for SRID 4326).
type pt struct{ a, b string }

// geom is a generated geometry.
type geom struct {
	kind  int
	pts   []pt     // point (one), linestring, multipoint
	rings [][]pt   // polygon rings, multilinestring lines
	polys [][][]pt // multipolygon
	geoms []*geom  // collection members
	empty bool     // collection written as GEOMETRYCOLLECTION EMPTY rather than ()
	plain bool     // multipoint written without the inner parentheses
	parts int      // number of rings / parts (for the non-trivial rule)
	frac  bool     // has a non-integer coordinate
}

func ptsWKT(ps []pt) string {
	ss := make([]string, len(ps))
	for i, p := range ps {
		ss[i] = p.a + " " + p.b
	}
	return strings.Join(ss, ",")
}

func ringsWKT(rs [][]pt) string {
	ss := make([]string, len(rs))
	for i, r := range rs {
		ss[i] = "(" + ptsWKT(r) + ")"
	}
	return strings.Join(ss, ",")
}

// WKT renders the geometry in standard well-known text.
func (g *geom) WKT() string {
	switch g.kind {
	case kPoint:
		return "POINT(" + ptsWKT(g.pts) + ")"
	case kLine:
		return "LINESTRING(" + ptsWKT(g.pts) + ")"
	case kPoly:
		return "POLYGON(" + ringsWKT(g.rings) + ")"
	case kMPoint:
		if g.plain {
			return "MULTIPOINT(" + ptsWKT(g.pts) + ")"
		}
		ss := make([]string, len(g.pts))
		for i, p := range g.pts {
			ss[i] = "(" + p.a + " " + p.b + ")"
		}
		return "MULTIPOINT(" + strings.Join(ss, ",") + ")"
	case kMLine:
		return "MULTILINESTRING(" + ringsWKT(g.rings) + ")"
	case kMPoly:
		ss := make([]string, len(g.polys))
		for i, p := range g.polys {
			ss[i] = "(" + ringsWKT(p) + ")"
		}
		return "MULTIPOLYGON(" + strings.Join(ss, ",") + ")"
	default:
		if len(g.geoms) == 0 {
			if g.empty {
				return "GEOMETRYCOLLECTION EMPTY"
			}
			return "GEOMETRYCOLLECTION()"
		}
		ss := make([]string, len(g.geoms))
		for i, m := range g.geoms {
			ss[i] = m.WKT()
		}
		return "GEOMETRYCOLLECTION(" + strings.Join(ss, ",") + ")"
	}
}

// WKB encodes the geometry as standard well-known binary; the first WKT coordinate goes first.
// It is used only as a second way to hand a geometry to the engine (ST_GeomFromWKB), never as
// an expected value.
func (g *geom) WKB(big bool) []byte {
	var out []byte
	var bo binary.ByteOrder = binary.LittleEndian
	if big {
		bo = binary.BigEndian
	}
	u32 := func(v uint32) { var b [4]byte; bo.PutUint32(b[:], v); out = append(out, b[:]...) }
	f64 := func(s string) {
		f, err := strconv.ParseFloat(s, 64)
		if err != nil {
			panic(err)
		}
		var b [8]byte
		bo.PutUint64(b[:], math.Float64bits(f))
		out = append(out, b[:]...)
	}
	hdr := func(kind int) {
		if big {
			out = append(out, 0)
		} else {
			out = append(out, 1)
		}
		u32(uint32(kind))
	}
	points := func(ps []pt) {
		u32(uint32(len(ps)))
		for _, p := range ps {
			f64(p.a)
			f64(p.b)
		}
	}
	poly := func(rs [][]pt) {
		u32(uint32(len(rs)))
		for _, r := range rs {
			points(r)
		}
	}
	hdr(g.kind)
	switch g.kind {
	case kPoint:
		f64(g.pts[0].a)
		f64(g.pts[0].b)
	case kLine:
		points(g.pts)
	case kPoly:
		poly(g.rings)
	case kMPoint:
		u32(uint32(len(g.pts)))
		for _, p := range g.pts {
			hdr(kPoint)
			f64(p.a)
			f64(p.b)
		}
	case kMLine:
		u32(uint32(len(g.rings)))
		for _, l := range g.rings {
			hdr(kLine)
			points(l)
		}
	case kMPoly:
		u32(uint32(len(g.polys)))
		for _, p := range g.polys {
			hdr(kPoly)
			poly(p)
		}
	case kColl:
		u32(uint32(len(g.geoms)))
		for _, m := range g.geoms {
			out = append(out, m.WKB(big)...)
		}
	}
	return out
}

func (g *geom) WKBHex(big bool) string { return strings.ToUpper(hex.EncodeToString(g.WKB(big))) }

// note computes parts / frac bottom-up.
func (g *geom) note() *geom {
	isFrac := func(ps []pt) bool {
		for _, p := range ps {
			for _, s := range []string{p.a, p.b} {
				f, _ := strconv.ParseFloat(s, 64)
				if f != math.Trunc(f) {
					return true
				}
			}
		}
		return false
	}
	switch g.kind {
	case kPoint, kLine:
		g.parts, g.frac = 1, isFrac(g.pts)
	case kMPoint:
		g.parts, g.frac = len(g.pts), isFrac(g.pts)
	case kPoly, kMLine:
		g.parts = len(g.rings)
		for _, r := range g.rings {
			g.frac = g.frac || isFrac(r)
		}
	case kMPoly:
		for _, p := range g.polys {
			g.parts += len(p)
			for _, r := range p {
				g.frac = g.frac || isFrac(r)
			}
		}
	case kColl:
		for _, m := range g.geoms {
			m.note()
			g.parts += m.parts
			g.frac = g.frac || m.frac
		}
	}
	return g
}

// coordinate pools ---------------------------------------------------------------------------

// edge values for planar SRIDs (0, 3857): zero, negative zero, halves, a value with a negative
// exponent, large exactly representable integers, the largest exactly representable integer
var planar = []string{"0", "1", "-1", "2", "3", "-2", "4", "10", "0.5", "-0.5", "1.5", "2.25", "0.1", "1e-7", "-0",
	"1e15", "-1e15", "123456789", "9007199254740992", "-1234.5678", "1.7976931348623157e308", "5e-324"}

// latitude (first WKT coordinate of SRID 4326) within [-90, 90]
var lats = []string{"0", "1", "-1", "2", "3", "0.5", "-0.5", "45.25", "90", "-90", "89.999999", "1e-7", "-0", "10"}

// longitude within [-180, 180]
var longs = []string{"0", "1", "-1", "2", "3", "0.5", "-0.5", "100.125", "180", "-180", "179.999999", "1e-7", "-0", "10"}

// small pool for the index check: collisions and overlaps are wanted
var small = []string{"0", "1", "2", "3", "4", "5", "6", "0.5", "1.5", "2.5", "3.5", "-1"}

type coordGen struct {
	first, second []string
}

func poolFor(srid int, smallOnly bool) coordGen {
	if smallOnly {
		return coordGen{small, small}
	}
	if srid == 4326 {
		return coordGen{lats, longs}
	}
	return coordGen{planar, planar}
}

func (c coordGen) pt(rt *rapid.T) pt {
	return pt{rapid.SampledFrom(c.first).Draw(rt, "a"), rapid.SampledFrom(c.second).Draw(rt, "b")}
}

func (c coordGen) pts(rt *rapid.T, lo, hi int) []pt {
	n := rapid.IntRange(lo, hi).Draw(rt, "npts")
	ps := make([]pt, n)
	for i := range ps {
		ps[i] = c.pt(rt)
	}
	return ps
}

// ring draws a closed ring of >= 4 points (first = last); nothing else is required of a
// polygon ring by the WKT/WKB forms.
func (c coordGen) ring(rt *rapid.T) []pt {
	ps := c.pts(rt, 3, 5)
	return append(ps, ps[0])
}

func (c coordGen) poly(rt *rapid.T) [][]pt {
	n := rapid.IntRange(1, 3).Draw(rt, "nrings")
	rs := make([][]pt, n)
	for i := range rs {
		rs[i] = c.ring(rt)
	}
	return rs
}

// geomOfKind draws a geometry of the given kind; depth bounds collection nesting.
func (c coordGen) geomOfKind(rt *rapid.T, kind, depth int) *geom {
	g := &geom{kind: kind}
	switch kind {
	case kPoint:
		g.pts = []pt{c.pt(rt)}
	case kLine:
		g.pts = c.pts(rt, 2, 5)
	case kPoly:
		g.rings = c.poly(rt)
	case kMPoint:
		g.pts = c.pts(rt, 1, 4)
		g.plain = rapid.IntRange(0, 3).Draw(rt, "plain") == 0
	case kMLine:
		n := rapid.IntRange(1, 3).Draw(rt, "nlines")
		for i := 0; i < n; i++ {
			g.rings = append(g.rings, c.pts(rt, 2, 4))
		}
	case kMPoly:
		n := rapid.IntRange(1, 3).Draw(rt, "npolys")
		for i := 0; i < n; i++ {
			g.polys = append(g.polys, c.poly(rt))
		}
	case kColl:
		n := rapid.IntRange(0, 3).Draw(rt, "nmembers")
		g.empty = rapid.Bool().Draw(rt, "emptykw")
		for i := 0; i < n; i++ {
			kinds := memberKinds
			if depth >= 2 {
				kinds = memberKinds[:6] // no collection below nesting depth 2
			}
			g.geoms = append(g.geoms, c.geomOfKind(rt, rapid.SampledFrom(kinds).Draw(rt, "mkind"), depth+1))
		}
	}
	return g
}

// kinds of collection members (collections last, three times) and of top-level geometries (weighted
// towards the types with more structure)
var memberKinds = []int{kPoint, kLine, kPoly, kMPoint, kMLine, kMPoly, kColl, kColl, kColl}
var topKinds = []int{kPoint, kLine, kPoly, kPoly, kMPoint, kMLine, kMPoly, kMPoly, kColl, kColl, kColl}

func (c coordGen) geom(rt *rapid.T) *geom {
	return c.geomOfKind(rt, rapid.SampledFrom(topKinds).Draw(rt, "kind"), 0).note()
}

// rect draws an axis-parallel rectangle polygon from the small pool (for the index check).
func rect(rt *rapid.T) *geom {
	vals := []string{"-1", "0", "0.5", "1", "1.5", "2", "2.5", "3", "3.5", "4", "5", "6"}
	i := rapid.IntRange(0, len(vals)-2).Draw(rt, "x0")
	j := rapid.IntRange(i+1, len(vals)-1).Draw(rt, "x1")
	k := rapid.IntRange(0, len(vals)-2).Draw(rt, "y0")
	l := rapid.IntRange(k+1, len(vals)-1).Draw(rt, "y1")
	x0, x1, y0, y1 := vals[i], vals[j], vals[k], vals[l]
	return (&geom{kind: kPoly, rings: [][]pt{{{x0, y0}, {x1, y0}, {x1, y1}, {x0, y1}, {x0, y0}}}}).note()
}
