package c52

import (
	"fmt"
	"io"
	"os"
	"sort"
	"strings"
	"testing"

	"github.com/dolthub/go-mysql-server/vh/internal/fx"
	"github.com/dolthub/go-mysql-server/vh/internal/kf"
	"github.com/dolthub/go-mysql-server/vh/internal/stats"
	"github.com/sirupsen/logrus"
	"pgregory.net/rapid"
)

func TestMain(m *testing.M) {
	logrus.SetOutput(io.Discard)
	os.Exit(m.Run())
}

var srids = []int{0, 4326, 3857} // the spatial reference systems hook H1 declares

// one returns the single normalised value of a one-row one-column result.
func one(r *fx.Result) (string, bool) {
	if !r.OK() || len(r.Rows) != 1 || len(r.Rows[0]) != 1 {
		return "", false
	}
	return fx.Norm(r.Rows[0][0], r.Schema[0].Type), true
}

// literal renders the SQL expression that hands geometry g to the engine through the route.
func literal(g *geom, srid int, route string) string {
	switch route {
	case "text":
		if srid == 0 {
			return fmt.Sprintf("ST_GeomFromText('%s')", g.WKT())
		}
		return fmt.Sprintf("ST_GeomFromText('%s', %d)", g.WKT(), srid)
	case "text-srid0arg":
		return fmt.Sprintf("ST_GeomFromText('%s', %d)", g.WKT(), srid)
	case "wkb":
		return fmt.Sprintf("ST_GeomFromWKB(x'%s', %d)", g.WKBHex(false), srid)
	default: // "wkb-be"
		return fmt.Sprintf("ST_GeomFromWKB(x'%s', %d)", g.WKBHex(true), srid)
	}
}

// nestedEmptyFinding: ST_AsText prints an empty collection that is a member of a collection as
// "GEOMETRYCOLLECTION EMPTY", which ST_GeomFromText only accepts at the end of the text.
const nestedEmptyFinding = "C52-nested-empty-collection-text"

func hasNestedEmpty(g *geom) bool {
	// the region: an empty collection that is a member of a collection and not its last member
	for i, m := range g.geoms {
		if m.kind == kColl && (len(m.geoms) == 0 && i < len(g.geoms)-1 || hasNestedEmpty(m)) {
			return true
		}
	}
	return false
}

// nestedEmptyWitness reports whether the finding reproduces.
func nestedEmptyWitness(fail func(string, ...any)) (bool, string) {
	f := fx.New(fx.Opts{})
	defer f.Close()
	s := f.NewSession("", "", "")
	s.MustExec(fail,
		"CREATE TABLE t (id INT PRIMARY KEY, g GEOMETRY)",
		"INSERT INTO t VALUES (1, ST_GeomFromText('GEOMETRYCOLLECTION(GEOMETRYCOLLECTION(),POINT(1 2))'))")
	txt := s.Exec("SELECT ST_AsText(g) FROM t")
	a := s.Exec("SELECT g FROM t")
	b := s.Exec("SELECT ST_GeomFromText(ST_AsText(g)) FROM t")
	va, oka := one(a)
	vb, okb := one(b)
	if !oka {
		fail("witness query failed: %s", a)
	}
	return !(okb && va == vb), fmt.Sprintf("g = ST_GeomFromText('GEOMETRYCOLLECTION(GEOMETRYCOLLECTION(),POINT(1 2))'): ST_AsText(g) -> %s; ST_GeomFromText(ST_AsText(g)) -> %s, expected g (%s)", txt, b, va)
}

// TestC52Known re-confirms the witnesses of the proposed findings: listed and reproducing is
// reported as a known hit, not listed and reproducing is a violation, not reproducing is fine.
func TestC52Known(t *testing.T) {
	st := stats.New("C52", "known")
	defer st.Flush()
	for _, w := range []struct {
		id string
		fn func(func(string, ...any)) (bool, string)
	}{
		{nestedEmptyFinding, nestedEmptyWitness},
	} {
		st.Eval()
		repro, desc := w.fn(t.Fatalf)
		if !repro {
			t.Logf("finding %s does not reproduce (stale if listed)", w.id)
			st.Class("witness-fixed:" + w.id)
			continue
		}
		st.Class("witness-reproduces:" + w.id)
		st.NonTrivial(nil, w.id)
		if !kf.Suppress(st, w.id) {
			t.Errorf("finding %s reproduces and is not listed as known: %s", w.id, desc)
		}
	}
}

// TestC52 is the round-trip part: a generated geometry is stored in a table, and the value read
// back must be reproduced by ST_GeomFromText(ST_AsText(g)) and ST_GeomFromWKB(ST_AsWKB(g)).
// Every comparison is between two values produced by the engine (serialised geometry bytes, or
// texts the engine printed); the harness formats no float.
func TestC52(t *testing.T) {
	st := stats.New("C52", "")
	defer st.Flush()
	nestedRepro, _ := nestedEmptyWitness(t.Fatalf)
	excludeNestedEmpty := nestedRepro && kf.Listed(nestedEmptyFinding)
	rapid.Check(t, func(rt *rapid.T) {
		st.Eval()
		srid := rapid.SampledFrom(srids).Draw(rt, "srid")
		g := poolFor(srid, false).geom(rt)
		route := rapid.SampledFrom([]string{"text", "text", "text-srid0arg", "wkb", "wkb-be"}).Draw(rt, "route")
		coltype := "GEOMETRY"
		if rapid.Bool().Draw(rt, "typedcol") {
			coltype = kindName[g.kind]
		}
		if rapid.Bool().Draw(rt, "sridcol") {
			coltype += fmt.Sprintf(" SRID %d", srid)
		}
		wkt := g.WKT()
		lit := literal(g, srid, route)
		if excludeNestedEmpty && hasNestedEmpty(g) {
			st.Excluded(nestedEmptyFinding)
			return
		}

		f := fx.New(fx.Opts{})
		defer f.Close()
		s := f.NewSession("", "", "")
		s.MustExec(rt.Fatalf, "CREATE TABLE t (id INT PRIMARY KEY, g "+coltype+")")
		ins := "INSERT INTO t VALUES (1, " + lit + ")"
		if r := s.Exec(ins); !r.OK() {
			if r.Panic != nil || r.TimedOut {
				rt.Fatalf("storing a geometry crashed: %s -> %s\n%s", ins, r, r.Stack)
			}
			// the engine refused the input form; there is no value to round-trip
			st.Class("construct-error:" + route + ":" + kindName[g.kind])
			return
		}
		desc := fmt.Sprintf("column %s, row stored by %s", coltype, ins)
		get := func(expr string) string {
			q := "SELECT " + expr + " FROM t"
			r := s.Exec(q)
			v, ok := one(r)
			if !ok {
				rt.Fatalf("%s -> %s\n%s\n%s", q, r, r.Stack, desc)
			}
			return v
		}
		v0 := get("g")
		if v0 == "N" {
			rt.Fatalf("SELECT g FROM t returned NULL\n%s", desc)
		}
		same := func(expr string) {
			if v := get(expr); v != v0 {
				rt.Fatalf("SELECT %s FROM t = %s, but SELECT g FROM t = %s (serialised SRID + WKB); ST_AsText(g) = %s\n%s", expr, v, v0, get("ST_AsText(g)"), desc)
			}
		}
		fromText := fmt.Sprintf("ST_GeomFromText(ST_AsText(g), %d)", srid)
		fromWKB := fmt.Sprintf("ST_GeomFromWKB(ST_AsWKB(g), %d)", srid)
		same(fromText)
		same(fromWKB)
		if srid == 0 {
			same("ST_GeomFromText(ST_AsText(g))")
			same("ST_GeomFromWKB(ST_AsWKB(g))")
		}
		if srid == 4326 {
			// the SRS-defined axis order of 4326 is latitude-longitude, the default of both directions
			opt := rapid.SampledFrom([]string{"axis-order=srid-defined", "axis-order=lat-long"}).Draw(rt, "axisopt")
			same(fmt.Sprintf("ST_GeomFromText(ST_AsText(g), 4326, '%s')", opt))
			same(fmt.Sprintf("ST_GeomFromWKB(ST_AsWKB(g), 4326, '%s')", opt))
		}
		// the SRID survives storage and both round trips
		want := fmt.Sprintf("n:%d", srid)
		for _, e := range []string{"ST_SRID(g)", "ST_SRID(" + fromText + ")", "ST_SRID(" + fromWKB + ")"} {
			if v := get(e); v != want {
				rt.Fatalf("SELECT %s FROM t = %s, expected SRID %d\n%s", e, v, srid, desc)
			}
		}
		// the text and binary forms themselves are reproduced
		if a, b := get("ST_AsText(g)"), get("ST_AsText("+fromText+")"); a != b {
			rt.Fatalf("ST_AsText(g) = %s but ST_AsText(%s) = %s\n%s", a, fromText, b, desc)
		}
		if a, b := get("HEX(ST_AsWKB(g))"), get("HEX(ST_AsWKB("+fromWKB+"))"); a != b {
			rt.Fatalf("HEX(ST_AsWKB(g)) = %s but HEX(ST_AsWKB(%s)) = %s\n%s", a, fromWKB, b, desc)
		}
		// swapping the axes twice is the identity
		same("ST_SwapXY(ST_SwapXY(g))")

		st.Class("kind:" + kindName[g.kind])
		st.Class(fmt.Sprintf("srid:%d", srid))
		st.Class("route:" + route)
		if g.kind == kColl {
			nested := false
			for _, m := range g.geoms {
				nested = nested || m.kind == kColl
			}
			switch {
			case len(g.geoms) == 0:
				st.Class("collection:empty")
			case nested:
				st.Class("collection:nested")
			}
		}
		if g.parts >= 2 || g.frac {
			st.NonTrivial(map[string]any{"wkt": wkt, "srid": srid, "route": route}, srid, route, coltype, wkt)
		}
	})
}

// idsOf returns the sorted first-column values of a result.
func idsOf(r *fx.Result) []string {
	var out []string
	for _, row := range fx.NormRows(r.Schema, r.Rows) {
		out = append(out, row[0])
	}
	sort.Strings(out)
	return out
}

// TestC52Index is the index part: the same predicate over a table with a SPATIAL KEY on a
// NOT NULL SRID-restricted column and over a twin table without the key must select the same
// rows.
func TestC52Index(t *testing.T) {
	st := stats.New("C52", "index")
	defer st.Flush()
	maxRows := 12
	if os.Getenv("VERIF_TIER") == "thorough" {
		maxRows = 20
	}
	rapid.Check(t, func(rt *rapid.T) {
		st.Eval()
		srid := rapid.SampledFrom(srids).Draw(rt, "srid")
		pointCol := rapid.Bool().Draw(rt, "pointcol")
		coltype := "GEOMETRY"
		if pointCol {
			coltype = "POINT"
		}
		pool := poolFor(srid, true)
		genRow := func() *geom {
			if pointCol || rapid.IntRange(0, 2).Draw(rt, "rowpoint") > 0 {
				return pool.geomOfKind(rt, kPoint, 0).note()
			}
			if rapid.Bool().Draw(rt, "rowrect") {
				return rect(rt)
			}
			return pool.geom(rt)
		}
		f := fx.New(fx.Opts{})
		defer f.Close()
		s := f.NewSession("", "", "")
		col := fmt.Sprintf("g %s NOT NULL SRID %d", coltype, srid)
		// with a column the queries do not read, the column pruning gives the table a projection,
		// and only then does the in-memory spatial lookup apply its bounding-box filter
		padCol := rapid.IntRange(0, 3).Draw(rt, "padcol") > 0
		if padCol {
			col += ", pad INT"
		}
		s.MustExec(rt.Fatalf,
			"CREATE TABLE t (id INT PRIMARY KEY, "+col+", SPATIAL KEY sk (g))",
			"CREATE TABLE tw (id INT PRIMARY KEY, "+col+")")
		var hist []string
		both := func(stmt string) {
			hist = append(hist, stmt)
			a := s.Exec(strings.Replace(stmt, "@T", "t", 1))
			b := s.Exec(strings.Replace(stmt, "@T", "tw", 1))
			if a.Panic != nil || b.Panic != nil || a.TimedOut || b.TimedOut {
				rt.Fatalf("statement crashed: %s -> %s / %s\n%s%s", stmt, a, b, a.Stack, b.Stack)
			}
			if a.OK() != b.OK() {
				rt.Fatalf("%s -> %s on the table with the SPATIAL KEY, %s on the twin without\nhistory:\n  %s", stmt, a, b, strings.Join(hist, ";\n  "))
			}
		}
		rows := map[int]*geom{}
		nextID := 1
		insert := func(n int) {
			if n == 0 {
				return
			}
			var vs []string
			for i := 0; i < n; i++ {
				g := genRow()
				rows[nextID] = g
				if padCol {
					vs = append(vs, fmt.Sprintf("(%d, ST_GeomFromText('%s', %d), %d)", nextID, g.WKT(), srid, nextID%3))
				} else {
					vs = append(vs, fmt.Sprintf("(%d, ST_GeomFromText('%s', %d))", nextID, g.WKT(), srid))
				}
				nextID++
			}
			both("INSERT INTO @T VALUES " + strings.Join(vs, ", "))
		}
		insert(rapid.IntRange(0, maxRows).Draw(rt, "nrows"))
		keys := func() []int {
			var ks []int
			for k := range rows {
				ks = append(ks, k)
			}
			sort.Ints(ks)
			return ks
		}
		// a little DML, so that the index is also consulted after changes
		for i, n := 0, rapid.IntRange(0, 2).Draw(rt, "ndml"); i < n; i++ {
			ks := keys()
			switch op := rapid.SampledFrom([]string{"insert", "update", "delete"}).Draw(rt, "dml"); {
			case op == "insert" || len(ks) == 0:
				insert(rapid.IntRange(1, 3).Draw(rt, "nmore"))
			case op == "update":
				id := rapid.SampledFrom(ks).Draw(rt, "uid")
				g := genRow()
				rows[id] = g
				both(fmt.Sprintf("UPDATE @T SET g = ST_GeomFromText('%s', %d) WHERE id = %d", g.WKT(), srid, id))
			default:
				id := rapid.SampledFrom(ks).Draw(rt, "did")
				delete(rows, id)
				both(fmt.Sprintf("DELETE FROM @T WHERE id = %d", id))
			}
		}
		ks := keys()
		var rowDesc []string
		for _, k := range ks {
			rowDesc = append(rowDesc, fmt.Sprintf("%d:%s", k, rows[k].WKT()))
		}

		nq := rapid.IntRange(1, 4).Draw(rt, "nq")
		for i := 0; i < nq; i++ {
			// the engine implements ST_Within only for a point on the left and ST_Equal only
			// for two points; the predicate is mostly drawn so that it is defined for the
			// table's rows (an undefined one fails on both tables and is skipped)
			preds := []string{"ST_Intersects(g, @Q)", "ST_Intersects(@Q, g)", "ST_Within(@Q, g)"}
			if pointCol {
				preds = append(preds, "ST_Within(g, @Q)", "ST_Within(g, @Q)", "ST_Equal(g, @Q)", "ST_Equal(@Q, g)")
			} else if rapid.IntRange(0, 5).Draw(rt, "anypred") == 0 {
				preds = append(preds, "ST_Within(g, @Q)", "ST_Equal(g, @Q)", "ST_Equal(@Q, g)")
			}
			pred := rapid.SampledFrom(preds).Draw(rt, "pred")
			needPoint := pred == "ST_Within(@Q, g)" || strings.HasPrefix(pred, "ST_Equal")
			var q *geom
			switch c := rapid.IntRange(0, 9).Draw(rt, "qshape"); {
			case c < 4 && !needPoint:
				q = rect(rt)
			case c < 7 && len(ks) > 0 && (!needPoint || rows[ks[0]].kind == kPoint):
				// a geometry that is in the table (the first row if a point is needed)
				q = rows[ks[0]]
				if !needPoint {
					q = rows[rapid.SampledFrom(ks).Draw(rt, "qrow")]
				}
			case c < 8 || needPoint:
				q = pool.geomOfKind(rt, kPoint, 0).note()
			default:
				q = pool.geom(rt)
			}
			qlit := fmt.Sprintf("ST_GeomFromText('%s', %d)", q.WKT(), srid)
			where := strings.Replace(pred, "@Q", qlit, 1)
			if rapid.IntRange(0, 3).Draw(rt, "extra") == 0 {
				where += fmt.Sprintf(" AND id <= %d", rapid.IntRange(0, nextID).Draw(rt, "maxid"))
			}
			sqlT, sqlW := "SELECT id FROM t WHERE "+where, "SELECT id FROM tw WHERE "+where
			direct := s.Exec(sqlW)
			if !direct.OK() {
				if direct.Panic != nil || direct.TimedOut {
					// a crash of the direct evaluation leaves nothing to compare with (and
					// poisons the fixture); crashes are C10's subject
					st.Class("skipped:direct-evaluation-crashed")
					return
				}
				// the predicate is not implemented for a geometry type that occurs in the table
				st.Class("skipped:direct-evaluation-error")
				continue
			}
			indexed := s.Exec(sqlT)
			ctx := func() string {
				return fmt.Sprintf("rows: %s\nhistory:\n  %s", strings.Join(rowDesc, " | "), strings.Join(hist, ";\n  "))
			}
			if !indexed.OK() {
				rt.Fatalf("%s -> %s\n%s\nbut the same predicate on the twin table without SPATIAL KEY returned ids %v\n%s", sqlT, indexed, indexed.Stack, idsOf(direct), ctx())
			}
			got, want := idsOf(indexed), idsOf(direct)
			if strings.Join(got, ",") != strings.Join(want, ",") {
				rt.Fatalf("%s\n  returned ids %v through the table with SPATIAL KEY, but %v on the twin table without it\n%s\nplan:\n%s", sqlT, got, want, ctx(), s.Plan(sqlT))
			}
			used := strings.Contains(s.Plan(sqlT), "IndexedTableAccess")
			st.Class("pred:" + pred[:strings.Index(pred, "(")])
			if used {
				st.Class("plan:index-used")
			} else {
				st.Class("plan:no-index")
			}
			switch {
			case len(want) == 0:
				st.Class("result:empty")
			case len(want) == len(ks):
				st.Class("result:all-rows")
			default:
				st.Class("result:strict-subset")
				if used {
					st.NonTrivial(map[string]any{"where": where, "rows": len(ks), "selected": len(want)}, srid, coltype, strings.Join(rowDesc, "|"), where)
				}
			}
		}
		st.Class(fmt.Sprintf("srid:%d", srid))
		st.Class("column:" + coltype)
		if padCol {
			st.Class("table:with-unread-column")
		}
	})
}
