package c27

import (
	"context"
	"encoding/json"
	"fmt"
	"math/big"
	"reflect"
	"strings"
	"testing"

	"github.com/cockroachdb/apd/v3"
	"github.com/dolthub/go-mysql-server/sql"
	"github.com/dolthub/go-mysql-server/vh/internal/fx"
	"github.com/dolthub/go-mysql-server/vh/internal/kf"
	"github.com/dolthub/go-mysql-server/vh/internal/stats"
	"pgregory.net/rapid"
)

// outcome is what one route did with the value.
type outcome struct {
	route    string // "api", "strict", "ignore"
	failed   bool   // Convert error / out-of-range flag; statement error
	errText  string
	panicked bool
	stack    string
	stored   bool   // a value was stored / returned
	value    any    // the stored value
	norm     string // its canonical form
	warnings int
	typ      sql.Type
}

func (o outcome) String() string {
	switch {
	case o.panicked:
		return "PANIC " + o.errText
	case o.failed && o.stored:
		return fmt.Sprintf("rejected (%s) but stored %s", o.errText, o.norm)
	case o.failed:
		return "rejected: " + o.errText
	case o.stored:
		return fmt.Sprintf("stored %s, %d warning(s)", o.norm, o.warnings)
	}
	return "accepted, nothing stored"
}

// numeric canonical forms compare by value ("n:5/2" vs "n:2.5" never occurs, but "n:1" vs
// "f:1" may); everything else compares as text.
func sameNorm(got, want string) bool {
	if got == want {
		return true
	}
	if strings.HasPrefix(want, "n:") && (strings.HasPrefix(got, "n:") || strings.HasPrefix(got, "f:")) {
		a, ok1 := new(big.Rat).SetString(want[2:])
		b, ok2 := new(big.Rat).SetString(got[2:])
		return ok1 && ok2 && a.Cmp(b) == 0
	}
	return false
}

func normJSON(v any) any {
	switch x := v.(type) {
	case map[string]any:
		m := map[string]any{}
		for k, e := range x {
			m[k] = normJSON(e)
		}
		return m
	case []any:
		a := make([]any, len(x))
		for i, e := range x {
			a[i] = normJSON(e)
		}
		return a
	case int64:
		return float64(x)
	case int:
		return float64(x)
	case uint64:
		return float64(x)
	case float32:
		return float64(x)
	case *apd.Decimal:
		f, _ := x.Float64()
		return f
	case json.Number:
		f, _ := x.Float64()
		return f
	}
	return v
}

// matches reports whether the stored value is one of the acceptable ones.
func matches(o outcome, acceptable []string) bool {
	for _, w := range acceptable {
		if strings.HasPrefix(w, "json:") {
			jw, ok := o.value.(sql.JSONWrapper)
			if !ok {
				continue
			}
			got, err := jw.ToInterface(context.Background())
			if err != nil {
				continue
			}
			var want any
			if json.Unmarshal([]byte(w[5:]), &want) != nil {
				continue
			}
			if reflect.DeepEqual(normJSON(got), normJSON(want)) {
				return true
			}
			continue
		}
		if sameNorm(o.norm, w) {
			return true
		}
	}
	return false
}

// judge applies the statement to one route. "" = fine, otherwise the reason of the violation.
func judge(c tcase, o outcome) string {
	if o.panicked {
		return "panic"
	}
	switch c.rep {
	case repExact:
		if o.failed {
			return "a representable value was rejected"
		}
		if !o.stored || !matches(o, c.want) {
			return "a representable value was not stored exactly"
		}
	case repRounded:
		// stored as the documented rounding says (with or without warning), or rejected
		if o.failed {
			if o.stored {
				return "rejected but something was stored"
			}
			return ""
		}
		if !o.stored || !matches(o, c.want) {
			return "stored a value that is not the documented rounding of the input"
		}
	case repNot:
		switch o.route {
		case "api":
			if !o.failed {
				return "Convert reports neither an error nor out-of-range for a value that is not representable"
			}
		case "strict":
			if !o.failed {
				return "strict INSERT accepted a value that is not representable (silently stored as a different value)"
			}
			if o.stored {
				return "the rejected statement stored something"
			}
		case "ignore":
			if o.failed {
				if c.ignoreMayFail && !o.stored {
					return ""
				}
				return "INSERT IGNORE failed instead of storing the nearest representable value"
			}
			if !o.stored || !matches(o, c.ignore) {
				return "INSERT IGNORE did not store the nearest representable value"
			}
			if o.warnings == 0 {
				return "INSERT IGNORE changed the value without a warning"
			}
		}
	}
	return ""
}

// runAPI: Type.Convert and idempotence of a successful conversion.
func runAPI(ctx *sql.Context, typ sql.Type, c tcase) (o outcome, idem string) {
	o = outcome{route: "api", typ: typ}
	defer func() {
		if p := recover(); p != nil {
			o.panicked, o.errText = true, fmt.Sprint(p)
		}
	}()
	v, inRange, err := typ.Convert(ctx, c.raw)
	if err != nil {
		o.failed, o.errText = true, err.Error()
	} else if inRange != sql.InRange {
		o.failed, o.errText = true, fmt.Sprintf("out of range flag %v", inRange)
	}
	if v != nil && !o.failed {
		o.stored, o.value, o.norm = true, v, fx.Norm(v, typ)
		v2, inRange2, err2 := typ.Convert(ctx, v)
		switch {
		case err2 != nil:
			idem = fmt.Sprintf("Convert(Convert(v)) fails: %v", err2)
		case inRange2 != sql.InRange:
			idem = fmt.Sprintf("Convert(Convert(v)) reports out of range (%v)", inRange2)
		case fx.Norm(v2, typ) != o.norm:
			idem = fmt.Sprintf("Convert(Convert(v)) = %s, Convert(v) = %s", fx.Norm(v2, typ), o.norm)
		}
	}
	return o, idem
}

func runSQL(s *fx.Sess, c tcase, route string, id int) outcome {
	o := outcome{route: route}
	verb := "INSERT"
	if route == "ignore" {
		verb = "INSERT IGNORE"
	}
	r := s.Exec(fmt.Sprintf("%s INTO t VALUES (%d, %s)", verb, id, c.lit))
	if r.Panic != nil {
		o.panicked, o.errText, o.stack = true, fmt.Sprint(r.Panic), r.Stack
		return o
	}
	if r.Err != nil || r.TimedOut {
		o.failed, o.errText = true, fmt.Sprint(r.Err)
	}
	o.warnings = len(r.Warnings)
	q := s.Exec(fmt.Sprintf("SELECT c FROM t WHERE id = %d", id))
	if q.Panic != nil {
		o.panicked, o.errText, o.stack = true, fmt.Sprint(q.Panic), q.Stack
		return o
	}
	if q.Err != nil {
		o.failed, o.errText = true, "reading back: "+q.Err.Error()
		return o
	}
	if len(q.Rows) == 1 {
		o.stored, o.value, o.typ = true, q.Rows[0][0], q.Schema[0].Type
		o.norm = fx.Norm(q.Rows[0][0], q.Schema[0].Type)
	}
	return o
}

// checkCase runs the three routes. skip(route) tells which routes lie in the region of a
// listed known finding.
func checkCase(rt *rapid.T, st *stats.Collector, c tcase, exclude bool) {
	f := fx.New(fx.Opts{})
	defer f.Close()
	s := f.NewSession("", "", "")
	s.MustExec(rt.Fatalf, "CREATE TABLE t (id INT PRIMARY KEY, c "+c.ddl+")")
	sch := s.Exec("SELECT c FROM t")
	if !sch.OK() || len(sch.Schema) != 1 {
		rt.Fatalf("cannot read the column type of %s: %s", c.ddl, sch)
	}
	typ := sch.Schema[0].Type
	report := func(o outcome, why string) {
		if id := signature(c, o, why); id != "" && kf.Suppress(st, id) {
			st.Class("known " + id)
			return
		}
		rt.Fatalf("C27 violated on route %q: %s\n  %s\n  acceptable when stored: %q; under INSERT IGNORE: %q\n  engine: %s\n%s",
			o.route, why, c, c.want, c.ignore, o, o.stack)
	}
	ran := 0
	for i, route := range []string{"api", "strict", "ignore"} {
		if route == "api" && c.raw == nil {
			continue
		}
		if exclude {
			if id := region(c, route); id != "" && kf.Listed(id) {
				st.Excluded(id)
				continue
			}
		}
		var o outcome
		if route == "api" {
			var idem string
			o, idem = runAPI(s.Ctx(context.Background()), typ, c)
			if idem != "" && !o.panicked {
				report(o, "conversion is not idempotent: "+idem)
			}
		} else {
			o = runSQL(s, c, route, i)
		}
		ran++
		st.Class("route " + route + " / " + []string{"representable", "rounded", "not representable"}[c.rep])
		if why := judge(c, o); why != "" {
			report(o, why)
			if o.panicked {
				return // the fixture is poisoned
			}
		}
	}
	if ran == 0 {
		return
	}
	st.Eval()
	st.Class("family " + c.family)
	if c.boundary {
		st.NonTrivial(map[string]any{"column": c.ddl, "value": c.lit, "expect": c.String()}, c.ddl, c.side, c.rep)
	}
}

// TestC27 is the main search; routes inside the input region of a listed known finding are
// skipped (excluded_known) and examined by TestC27Known.
func TestC27(t *testing.T) {
	st := stats.New("C27", "")
	defer st.Flush()
	rapid.Check(t, func(rt *rapid.T) {
		c := genCase(rt)
		checkCase(rt, st, c, true)
	})
}
