// Package c27 checks property C27: storing a value keeps it exactly or reports the change
// (see /verif/DESIGN.md section 6, C27 and /verif/notes/C27.md).
package c27

import (
	"fmt"
	"math"
	"math/big"
	"strconv"
	"strings"
	"time"

	"github.com/cockroachdb/apd/v3"
	"github.com/dolthub/go-mysql-server/sql/types"
	"pgregory.net/rapid"
)

// Representability of the input for the column type, decided by the harness.
const (
	repExact   = iota // the value is a value of the type: must be stored exactly, without error
	repRounded        // representable after documented rounding (fraction -> integer, DECIMAL scale, FLOAT, fractional seconds)
	repNot            // out of range, over-long or malformed: strict INSERT must fail, INSERT IGNORE stores the nearest value + warning
)

// tcase is one (value, column type) pair with the outcome the statement demands.
type tcase struct {
	family string
	ddl    string   // column type
	lit    string   // the value as a SQL literal
	raw    any      // the value as the Go value the engine passes to Type.Convert (nil: API route not used)
	rep    int      // representability
	want   []string // acceptable stored values (canonical fx.Norm forms) when rep is exact/rounded
	ignore []string // acceptable stored values under INSERT IGNORE when rep is repNot
	// ignoreMayFail: INSERT IGNORE may also reject the statement (JSON: MySQL rejects invalid JSON even with IGNORE)
	ignoreMayFail bool
	why           string   // why the input is not representable / how it is rounded
	boundary      bool     // at or just beyond a limit, or malformed (non-trivial rule)
	ival          *big.Int // integer families: the (rounded) numeric value of the input, nil if it has none
	nonString     bool     // string families: the literal is a number, not a string
	numText       string   // integer family: the numeric text of a string / floating point literal ("" for exact numeric literals)
	side          string   // boundary side / kind of malformation (for the distinct count)
}

func (c tcase) String() string {
	rep := []string{"representable", "representable after rounding", "NOT representable"}[c.rep]
	s := fmt.Sprintf("column %s, value %s: %s", c.ddl, c.lit, rep)
	if c.why != "" {
		s += " (" + c.why + ")"
	}
	return s
}

func pow2(k uint) *big.Int { return new(big.Int).Lsh(big.NewInt(1), k) }
func pow10(k int) *big.Int { return new(big.Int).Exp(big.NewInt(10), big.NewInt(int64(k)), nil) }
func bi(x int64) *big.Int  { return big.NewInt(x) }

func nInt(v *big.Int) string { return "n:" + v.String() }
func nRat(r *big.Rat) string { return "n:" + r.RatString() }

// roundHalfAway rounds r to `scale` fractional digits, ties away from zero (MySQL's rounding
// of exact numbers), and returns the result as a rational.
func roundHalfAway(r *big.Rat, scale int) *big.Rat {
	m := new(big.Rat).Mul(r, new(big.Rat).SetInt(pow10(scale)))
	neg := m.Sign() < 0
	if neg {
		m.Neg(m)
	}
	m.Add(m, big.NewRat(1, 2))
	q := new(big.Int).Quo(m.Num(), m.Denom()) // floor for non-negative
	if neg {
		q.Neg(q)
	}
	return new(big.Rat).SetFrac(q, pow10(scale))
}

// ---------------------------------------------------------------------------------------
// integers

type intType struct {
	name     string
	bits     uint
	unsigned bool
}

var intTypes = []intType{
	{"TINYINT", 8, false}, {"TINYINT UNSIGNED", 8, true}, {"SMALLINT", 16, false}, {"SMALLINT UNSIGNED", 16, true},
	{"MEDIUMINT", 24, false}, {"MEDIUMINT UNSIGNED", 24, true}, {"INT", 32, false}, {"INT UNSIGNED", 32, true},
	{"BIGINT", 64, false}, {"BIGINT UNSIGNED", 64, true},
}

func (t intType) min() *big.Int {
	if t.unsigned {
		return big.NewInt(0)
	}
	return new(big.Int).Neg(pow2(t.bits - 1))
}

func (t intType) max() *big.Int {
	if t.unsigned {
		return new(big.Int).Sub(pow2(t.bits), bi(1))
	}
	return new(big.Int).Sub(pow2(t.bits-1), bi(1))
}

func clampInt(v, lo, hi *big.Int) *big.Int {
	if v.Cmp(lo) < 0 {
		return lo
	}
	if v.Cmp(hi) > 0 {
		return hi
	}
	return v
}

// nearBound draws an integer at distance 0..2 inside or outside one of the ends of [lo, hi],
// or an ordinary value; side describes where.
func nearBound(rt *rapid.T, lo, hi *big.Int, label string) (*big.Int, string) {
	switch rapid.IntRange(0, 9).Draw(rt, label+"_where") {
	case 0, 1:
		d := int64(rapid.IntRange(0, 2).Draw(rt, label+"_d"))
		return new(big.Int).Sub(hi, bi(d)), "at-max"
	case 2, 3:
		d := int64(rapid.IntRange(1, 3).Draw(rt, label+"_d"))
		if rapid.IntRange(0, 3).Draw(rt, label+"_far") == 0 {
			d = int64(rapid.SampledFrom([]int{45, 256, 65536, 1000000}).Draw(rt, label+"_fard"))
		}
		return new(big.Int).Add(hi, bi(d)), "above-max"
	case 4, 5:
		d := int64(rapid.IntRange(0, 2).Draw(rt, label+"_d"))
		return new(big.Int).Add(lo, bi(d)), "at-min"
	case 6, 7:
		d := int64(rapid.IntRange(1, 3).Draw(rt, label+"_d"))
		if rapid.IntRange(0, 3).Draw(rt, label+"_far") == 0 {
			d = int64(rapid.SampledFrom([]int{45, 256, 65536, 1000000}).Draw(rt, label+"_fard"))
		}
		return new(big.Int).Sub(lo, bi(d)), "below-min"
	case 8:
		return bi(int64(rapid.IntRange(-3, 3).Draw(rt, label+"_small"))), ""
	}
	span := new(big.Int).Sub(hi, lo)
	raw := rapid.SliceOfN(rapid.Byte(), 9, 9).Draw(rt, label+"_raw")
	v := new(big.Int).SetBytes(raw)
	v.Mod(v, new(big.Int).Add(span, bi(1)))
	return v.Add(v, lo), ""
}

func rawInt(v *big.Int) any {
	if v.IsInt64() {
		return v.Int64()
	}
	if v.IsUint64() {
		return v.Uint64()
	}
	d, _, _ := apd.NewFromString(v.String())
	return d
}

func genIntegerCase(rt *rapid.T) tcase {
	ty := rapid.SampledFrom(intTypes).Draw(rt, "inttype")
	lo, hi := ty.min(), ty.max()
	c := tcase{family: "integer", ddl: ty.name}
	n, side := nearBound(rt, lo, hi, "v")
	inRange := func(v *big.Int) bool { return v.Cmp(lo) >= 0 && v.Cmp(hi) <= 0 }
	setInt := func(v *big.Int) {
		c.ival = v
		if inRange(v) {
			c.want = []string{nInt(v)}
		} else {
			c.rep = repNot
			c.why = "out of range"
			c.ignore = []string{nInt(clampInt(v, lo, hi))}
		}
	}
	c.side, c.boundary = side, side != ""
	switch rapid.IntRange(0, 9).Draw(rt, "form") {
	case 0, 1, 2: // integer literal
		c.lit, c.raw = n.String(), rawInt(n)
		setInt(n)
	case 3: // clean integer text
		c.lit, c.raw = "'"+n.String()+"'", n.String()
		c.numText = n.String()
		setInt(n)
		c.side += " string"
	case 4: // number with a fractional part: rounded half away from zero, then range-checked
		frac := rapid.SampledFrom([]string{"5", "4", "6", "49", "50", "51", "0", "499999", "500000"}).Draw(rt, "frac")
		txt := n.String() + "." + frac
		r, _ := new(big.Rat).SetString(txt)
		rounded := roundHalfAway(r, 0).Num()
		c.lit = txt
		c.raw, _, _ = apd.NewFromString(txt)
		c.rep = repRounded
		c.why = "fraction rounds to " + rounded.String()
		setInt(rounded)
		if c.rep == repNot {
			c.why = "rounds to " + rounded.String() + ", out of range"
		}
		c.side += " fraction"
		c.boundary = true
		if rapid.IntRange(0, 2).Draw(rt, "fracastext") == 0 {
			c.lit, c.raw = "'"+txt+"'", nil
			c.numText = txt
			c.side += " string"
		}
	case 5: // text with surrounding blanks
		c.lit = "' " + n.String() + " '"
		c.numText = n.String()
		setInt(n)
		c.side += " padded-string"
	case 6: // malformed numeric text: a number followed by garbage
		garbage := rapid.SampledFrom([]string{"abc", "x", "-", " 1", "e", ".."}).Draw(rt, "garbage")
		c.lit = "'" + n.String() + garbage + "'"
		c.numText = n.String()
		if garbage == ".." {
			c.numText += "."
		}
		c.rep, c.why = repNot, "malformed number"
		c.ignore = []string{nInt(clampInt(n, lo, hi)), nInt(clampInt(bi(0), lo, hi))}
		c.side, c.boundary = "malformed-tail", true
	case 7: // malformed: no number at all
		c.lit = rapid.SampledFrom([]string{"''", "'abc'", "' '", "'-'", "'.'", "'x1'"}).Draw(rt, "nonnumber")
		c.raw = strings.Trim(c.lit, "'")
		c.rep, c.why = repNot, "not a number"
		c.ignore = []string{nInt(clampInt(bi(0), lo, hi))}
		c.side, c.boundary = "malformed "+c.lit, true
	case 8: // 2^63 / 2^64 written as text or as a floating point literal (float conversion boundary)
		v := rapid.SampledFrom([]*big.Int{pow2(63), pow2(64), new(big.Int).Neg(pow2(63)), new(big.Int).Add(pow2(63), bi(2048)), pow2(31), pow2(32)}).Draw(rt, "pow")
		if rapid.Bool().Draw(rt, "asfloat") {
			c.lit = v.String() + "e0"
			c.numText = c.lit
			f, _ := new(big.Float).SetInt(v).Float64()
			c.raw = f
		} else {
			c.lit, c.raw = "'"+v.String()+"'", v.String()
			c.numText = v.String()
		}
		setInt(v)
		c.side, c.boundary = "power-of-two "+c.lit, true
	default: // boolean
		b := rapid.Bool().Draw(rt, "bool")
		c.lit = map[bool]string{true: "TRUE", false: "FALSE"}[b]
		c.raw = b
		setInt(bi(map[bool]int64{true: 1, false: 0}[b]))
	}
	return c
}

// ---------------------------------------------------------------------------------------
// DECIMAL(p,s)

func genDecimalCase(rt *rapid.T) tcase {
	p := rapid.IntRange(1, 65).Draw(rt, "p")
	s := rapid.IntRange(0, min(p, 30)).Draw(rt, "s")
	switch rapid.IntRange(0, 3).Draw(rt, "common") {
	case 0:
		p, s = 5, 2
	case 1:
		p, s = 10, 0
	}
	c := tcase{family: "decimal", ddl: fmt.Sprintf("DECIMAL(%d,%d)", p, s)}
	maxU := new(big.Int).Sub(pow10(p), bi(1)) // largest unscaled value
	// unscaled value near the limits, with 0-3 extra fractional digits
	u, side := nearBound(rt, new(big.Int).Neg(maxU), maxU, "u")
	extra := rapid.IntRange(0, 3).Draw(rt, "extra")
	if s+extra > 30 {
		extra = 0 // MySQL parses at most 30 fractional digits of a literal
	}
	tail := ""
	if extra > 0 {
		tail = rapid.SampledFrom([]string{"5", "4", "49", "50", "51", "9", "99", "999", "0", "1", "499", "500", "501"}).Draw(rt, "tail")
		if len(tail) > extra {
			tail = tail[:extra]
		}
	}
	if len(new(big.Int).Abs(u).String())+len(tail) > 65 {
		// a literal of more than 65 digits is not a DECIMAL literal
		u, tail, side = new(big.Int).Set(maxU), "", "at-max"
	}
	// text of u with scale s, followed by the extra digits
	txt := new(big.Int).Abs(u).String()
	for len(txt) <= s {
		txt = "0" + txt
	}
	if s > 0 {
		txt = txt[:len(txt)-s] + "." + txt[len(txt)-s:]
	} else if tail != "" {
		txt += "."
	}
	txt += tail
	if u.Sign() < 0 {
		txt = "-" + txt
	}
	r, _ := new(big.Rat).SetString(txt)
	rounded := roundHalfAway(r, s)
	limit := new(big.Rat).SetFrac(maxU, pow10(s))
	c.lit = txt
	c.raw, _, _ = apd.NewFromString(txt)
	c.side, c.boundary = side, side != ""
	if tail != "" && strings.Trim(tail, "0") != "" {
		c.rep = repRounded
		c.why = "rounds to " + rounded.FloatString(s)
		c.side += " extra-digits"
		c.boundary = true
	}
	if new(big.Rat).Abs(rounded).Cmp(limit) > 0 {
		c.rep = repNot
		c.why = "out of range (after rounding: " + rounded.FloatString(s) + ")"
		if rounded.Sign() < 0 {
			c.ignore = []string{nRat(new(big.Rat).Neg(limit))}
		} else {
			c.ignore = []string{nRat(limit)}
		}
	} else {
		c.want = []string{nRat(rounded)}
	}
	switch rapid.IntRange(0, 7).Draw(rt, "form") {
	case 0: // as text
		c.lit, c.raw = "'"+txt+"'", txt
		c.side += " string"
	case 1: // malformed
		c.lit = rapid.SampledFrom([]string{"''", "'abc'", "'1.2x'", "'1..2'", "'--1'"}).Draw(rt, "bad")
		c.raw = strings.Trim(c.lit, "'")
		c.rep, c.why, c.want = repNot, "malformed number", nil
		zero := "n:0"
		c.ignore = []string{zero}
		switch c.lit {
		case "'1.2x'":
			v := roundHalfAway(big.NewRat(12, 10), s)
			if v.Cmp(limit) > 0 {
				v = limit
			}
			c.ignore = []string{nRat(v), zero}
		case "'1..2'":
			v := big.NewRat(1, 1)
			if v.Cmp(limit) > 0 {
				v = limit
			}
			c.ignore = []string{nRat(v), zero}
		}
		c.side, c.boundary = "malformed "+c.lit, true
	}
	return c
}

// ---------------------------------------------------------------------------------------
// FLOAT / DOUBLE

func fNorm32(f float32) string { return "f:" + strconv.FormatFloat(float64(f), 'g', 17, 64) }
func fNorm64(f float64) string { return "f:" + strconv.FormatFloat(f, 'g', 17, 64) }

func genFloatCase(rt *rapid.T) tcase {
	isF32 := rapid.Bool().Draw(rt, "f32")
	c := tcase{family: "float", ddl: "DOUBLE"}
	if isF32 {
		c.ddl = "FLOAT"
	}
	txt := rapid.SampledFrom([]string{"0", "1", "-1", "0.5", "1.5", "-2.25", "0.1", "1e10", "16777216", "16777217", "3.4028234e38", "3.4028235e38",
		"3.5e38", "-3.5e38", "1e39", "1e-45", "1e-50", "1.7976931348623157e308", "1.8e308", "-1.8e308", "1e400", "123456.789", "9007199254740993", "1e-400"}).Draw(rt, "val")
	f, _ := strconv.ParseFloat(txt, 64) // +-Inf for out-of-range text
	c.lit = txt
	if rapid.IntRange(0, 3).Draw(rt, "asstring") == 0 || math.IsInf(f, 0) || txt == "1e-400" {
		c.lit = "'" + txt + "'"
		c.raw = txt
	} else if !strings.ContainsAny(txt, "e.") {
		c.raw, _, _ = apd.NewFromString(txt)
		if n, ok := new(big.Int).SetString(txt, 10); ok {
			c.raw = rawInt(n)
		}
	} else if strings.Contains(txt, "e") {
		c.raw = f
	} else {
		c.raw, _, _ = apd.NewFromString(txt)
	}
	maxv := math.MaxFloat64
	if isF32 {
		maxv = math.MaxFloat32
	}
	c.side = "ordinary"
	switch {
	case !isF32 && math.IsInf(f, 0):
		// Numeric text beyond the DOUBLE range. MySQL rejects it; this engine keeps IEEE
		// infinities in DOUBLE columns on purpose ("diverges from MySQL ... to be
		// Postgres-compatible", enginetest/queries/queries.go, rowexec/insert_test.go "inserting
		// Infinity into float is okay"), so the overflow to +-Inf is the documented rounding of
		// its DOUBLE and not a silent change: accepted are a rejection, the infinity, or the
		// clamped +-MaxFloat64.
		c.rep, c.why = repRounded, "beyond the DOUBLE range: rejected, or the IEEE infinity the engine keeps by design"
		c.boundary, c.side = true, "beyond-max"
		c.want = []string{fNorm64(f), fNorm64(math.Copysign(math.MaxFloat64, f))}
	case math.IsInf(f, 0) || math.Abs(f) > maxv*(1+1e-7):
		c.rep, c.why = repNot, "out of range"
		c.boundary, c.side = true, "beyond-max"
		lim := maxv
		if f < 0 {
			lim = -maxv
		}
		if isF32 {
			c.ignore = []string{fNorm32(float32(lim))}
		} else {
			c.ignore = []string{fNorm64(lim)}
		}
		if math.IsInf(f, 0) && c.raw != nil {
			if _, isF := c.raw.(float64); isF {
				c.raw = nil // no Go value for the out-of-range literal
			}
		}
	case isF32:
		c.rep, c.why = repRounded, "nearest FLOAT"
		f32 := float32(f)
		if math.IsInf(float64(f32), 0) { // rounds up to infinity although below the stated limit
			f32 = float32(math.Copysign(math.MaxFloat32, f))
		}
		c.want = []string{fNorm32(f32), fNorm32(math.Nextafter32(f32, float32(math.Inf(1)))), fNorm32(math.Nextafter32(f32, float32(math.Inf(-1))))}
		c.boundary = math.Abs(f) > 1e38 || (f != 0 && math.Abs(f) < 1e-44) || txt == "16777217"
		if c.boundary {
			c.side = "near-limit"
		}
	default:
		c.rep, c.why = repRounded, "nearest DOUBLE"
		c.want = []string{fNorm64(f)}
		c.boundary = math.Abs(f) > 1e308 || txt == "9007199254740993" || txt == "1e-400"
		if c.boundary {
			c.side = "near-limit"
		}
	}
	c.side += " " + txt
	return c
}

// ---------------------------------------------------------------------------------------
// character and binary strings

var chars = []string{"a", "b", "Z", "0", " ", "á", "ß", "€", "😀", "中", "'", "\\", "%"}

func sqlString(s string) string {
	r := strings.NewReplacer("\\", "\\\\", "'", "''")
	return "'" + r.Replace(s) + "'"
}

func genStringCase(rt *rapid.T) tcase {
	n := rapid.IntRange(1, 6).Draw(rt, "len")
	kind := rapid.SampledFrom([]string{"VARCHAR", "CHAR", "VARBINARY"}).Draw(rt, "kind")
	c := tcase{family: strings.ToLower(kind), ddl: fmt.Sprintf("%s(%d)", kind, n)}
	// a string of n-1, n, n+1 or n+2.. units (characters, or bytes for VARBINARY)
	k := n + rapid.IntRange(-1, 2).Draw(rt, "delta")
	if rapid.IntRange(0, 5).Draw(rt, "long") == 0 {
		k = n + rapid.IntRange(3, 6).Draw(rt, "more")
	}
	var parts []string
	units := 0
	for i := 0; units < k; i++ {
		ch := rapid.SampledFrom(chars).Draw(rt, fmt.Sprintf("ch%d", i))
		if kind == "CHAR" && ch == " " {
			ch = "a" // trailing-space handling of CHAR is not part of this property
		}
		parts = append(parts, ch)
		if kind == "VARBINARY" {
			units += len(ch)
		} else {
			units++
		}
	}
	// excess trailing blanks are silently dropped by MySQL (not an error): keep them out of the domain
	for len(parts) > 0 && parts[len(parts)-1] == " " && units > n {
		parts[len(parts)-1] = "b"
	}
	s := strings.Join(parts, "")
	c.lit, c.raw = sqlString(s), s
	if kind != "VARBINARY" && len(parts) > 0 && len(parts) <= 15 && rapid.IntRange(0, 7).Draw(rt, "numlit") == 0 {
		// a number stored into a character column is stored as its text
		for i := range parts {
			parts[i] = strconv.Itoa(1 + (i+k)%9)
		}
		s = strings.Join(parts, "")
		c.lit = s
		c.nonString = true
		n64, _ := strconv.ParseInt(s, 10, 64)
		c.raw = n64
	}
	multi := len(s) != len(parts)
	c.side = fmt.Sprintf("len%+d", units-n)
	if multi {
		c.side += " multibyte"
	}
	c.boundary = units >= n-1 && units <= n+1
	if units <= n {
		c.want = []string{"s:" + s}
		return c
	}
	c.rep, c.why = repNot, fmt.Sprintf("%d units, limit %d", units, n)
	if kind == "VARBINARY" {
		c.ignore = []string{"s:" + s[:n]}
	} else {
		c.ignore = []string{"s:" + strings.Join(parts[:n], "")}
	}
	return c
}

// ---------------------------------------------------------------------------------------
// DATE / DATETIME(n) / TIMESTAMP(n)

func genTemporalCase(rt *rapid.T) tcase {
	kind := rapid.SampledFrom([]string{"DATE", "DATETIME", "TIMESTAMP"}).Draw(rt, "kind")
	prec := rapid.SampledFrom([]int{0, 3, 6}).Draw(rt, "prec")
	c := tcase{family: strings.ToLower(kind)}
	if kind == "DATE" {
		c.ddl, prec = "DATE", 0
	} else {
		c.ddl = fmt.Sprintf("%s(%d)", kind, prec)
	}
	year := rapid.SampledFrom([]int{1000, 1001, 1969, 1970, 1999, 2000, 2023, 2024, 2037, 2038, 2039, 9999}).Draw(rt, "year")
	month := rapid.SampledFrom([]int{1, 2, 2, 4, 12, 13, 6}).Draw(rt, "month")
	day := rapid.SampledFrom([]int{1, 28, 29, 30, 31, 32, 15}).Draw(rt, "day")
	hour, minute, sec := 0, 0, 0
	frac := ""
	hasTime := kind != "DATE" || rapid.IntRange(0, 3).Draw(rt, "datewithtime") == 0
	if hasTime {
		hour = rapid.SampledFrom([]int{0, 3, 12, 23, 24, 25}).Draw(rt, "hour")
		minute = rapid.SampledFrom([]int{0, 14, 59, 60}).Draw(rt, "minute")
		sec = rapid.SampledFrom([]int{0, 1, 7, 8, 59, 60}).Draw(rt, "sec")
		if kind != "DATE" {
			frac = rapid.SampledFrom([]string{"", "", "5", "4", "000001", "999999", "0004", "0005", "123456", "499", "500"}).Draw(rt, "frac")
		}
	}
	// the exact ends of the supported ranges (and one second outside the TIMESTAMP range)
	if rapid.IntRange(0, 3).Draw(rt, "rangeend") == 0 {
		type ymdhms struct{ y, mo, d, h, mi, s int }
		ends := []ymdhms{{1000, 1, 1, 0, 0, 0}, {9999, 12, 31, 23, 59, 59}}
		if kind == "TIMESTAMP" {
			ends = []ymdhms{{1970, 1, 1, 0, 0, 1}, {1970, 1, 1, 0, 0, 0}, {2038, 1, 19, 3, 14, 7}, {2038, 1, 19, 3, 14, 8}}
		}
		e := rapid.SampledFrom(ends).Draw(rt, "end")
		year, month, day, hour, minute, sec = e.y, e.mo, e.d, e.h, e.mi, e.s
		if kind == "DATE" {
			hour, minute, sec = 0, 0, 0
		} else {
			hasTime = true
		}
		frac = ""
	}
	if year == 9999 && hour == 23 && minute == 59 && sec == 59 {
		frac = "" // rounding up would leave the supported range
	}
	txt := fmt.Sprintf("%04d-%02d-%02d", year, month, day)
	if hasTime {
		txt += fmt.Sprintf(" %02d:%02d:%02d", hour, minute, sec)
		if frac != "" {
			txt += "." + frac
		}
	}
	c.lit, c.raw = "'"+txt+"'", txt
	c.side = "valid"
	daysIn := time.Date(year, time.Month(month)+1, 0, 0, 0, 0, 0, time.UTC).Day()
	if month > 12 || day > daysIn || hour > 23 || minute > 59 || sec > 59 {
		c.rep, c.why = repNot, "invalid calendar date or time of day"
		c.ignore = []string{"t:" + strconv.FormatInt(types.ZeroTime.UTC().UnixMicro(), 10)}
		c.boundary, c.side = true, "invalid"
		if month <= 12 && day > daysIn {
			c.side = fmt.Sprintf("invalid day %d of month %d", day, month)
		}
		return c
	}
	base := time.Date(year, time.Month(month), day, hour, minute, sec, 0, time.UTC)
	// fractional seconds: exact, or rounded (half up) / truncated to the column precision
	us := int64(0)
	var alts []int64
	if frac != "" {
		digits := frac
		for len(digits) < 7 {
			digits += "0"
		}
		v, _ := strconv.ParseInt(digits[:7], 10, 64) // tenths of microseconds
		unit := int64(math.Pow10(7 - prec))
		down := v / unit * unit
		up := down
		if v%unit*2 >= unit {
			up = down + unit
		}
		if v%unit != 0 {
			c.rep, c.why = repRounded, fmt.Sprintf("fraction rounded to %d digits", prec)
			c.boundary, c.side = true, "fraction beyond precision"
			alts = append(alts, down/10)
		}
		us = up / 10
	}
	if kind == "DATE" {
		if hasTime && (hour != 0 || minute != 0 || sec != 0) {
			c.rep, c.why = repRounded, "time of day dropped"
		}
		base = time.Date(year, time.Month(month), day, 0, 0, 0, 0, time.UTC)
		us, alts = 0, nil
	}
	for _, u := range append([]int64{us}, alts...) {
		c.want = append(c.want, "t:"+strconv.FormatInt(base.UnixMicro()+u, 10))
	}
	if kind == "TIMESTAMP" {
		lo := time.Date(1970, 1, 1, 0, 0, 1, 0, time.UTC).UnixMicro()
		hi := time.Date(2038, 1, 19, 3, 14, 7, 999999000, time.UTC).UnixMicro()
		t0 := base.UnixMicro() + us
		if t0 < lo || t0 > hi {
			c.rep, c.why, c.want = repNot, "outside the TIMESTAMP range", nil
			c.ignore = []string{"t:" + strconv.FormatInt(types.ZeroTime.UTC().UnixMicro(), 10)}
			c.boundary, c.side = true, "timestamp range"
			return c
		}
		if year == 1970 || year == 2038 {
			c.boundary, c.side = true, "timestamp range edge"
		}
	}
	if year == 1000 || year == 9999 || (month == 2 && day >= 28) {
		c.boundary = true
		if c.side == "valid" {
			c.side = "calendar edge"
		}
	}
	return c
}

// ---------------------------------------------------------------------------------------
// TIME(6)

func genTimeCase(rt *rapid.T) tcase {
	c := tcase{family: "time", ddl: "TIME(6)"}
	h := rapid.SampledFrom([]int{0, 1, 23, 24, 100, 837, 838, 839, 900, 1000}).Draw(rt, "h")
	m := rapid.SampledFrom([]int{0, 30, 59, 60, 61}).Draw(rt, "m")
	s := rapid.SampledFrom([]int{0, 1, 58, 59, 60}).Draw(rt, "s")
	frac := rapid.SampledFrom([]string{"", "", "000001", "5", "999999"}).Draw(rt, "frac")
	neg := rapid.IntRange(0, 2).Draw(rt, "neg") == 0
	txt := fmt.Sprintf("%02d:%02d:%02d", h, m, s)
	if frac != "" {
		txt += "." + frac
	}
	if neg {
		txt = "-" + txt
	}
	c.lit, c.raw = "'"+txt+"'", txt
	c.side = "valid"
	if m > 59 || s > 59 {
		c.rep, c.why = repNot, "invalid minutes or seconds"
		c.ignore = []string{"d:0"}
		c.boundary, c.side = true, "invalid"
		return c
	}
	us := int64(0)
	if frac != "" {
		d := frac
		for len(d) < 6 {
			d += "0"
		}
		us, _ = strconv.ParseInt(d, 10, 64)
	}
	total := (int64(h)*3600+int64(m)*60+int64(s))*1000000 + us
	const limit = (838*3600 + 59*60 + 59) * 1000000
	if neg {
		total = -total
	}
	if total > limit || total < -limit {
		c.rep, c.why = repNot, "beyond +-838:59:59"
		c.boundary, c.side = true, "out-of-range"
		if total > 0 {
			c.ignore = []string{"d:" + strconv.FormatInt(limit, 10)}
		} else {
			c.ignore = []string{"d:" + strconv.FormatInt(-limit, 10)}
		}
		return c
	}
	c.want = []string{"d:" + strconv.FormatInt(total, 10)}
	if h >= 837 {
		c.boundary, c.side = true, "range edge"
	}
	return c
}

// ---------------------------------------------------------------------------------------
// YEAR, ENUM, SET, BIT, JSON

func genYearCase(rt *rapid.T) tcase {
	c := tcase{family: "year", ddl: "YEAR"}
	y := rapid.SampledFrom([]int{0, 1, 69, 70, 99, 100, 1000, 1900, 1901, 1902, 2000, 2154, 2155, 2156, 3000, 10000, -1}).Draw(rt, "y")
	c.lit, c.raw = strconv.Itoa(y), int64(y)
	c.boundary, c.side = true, strconv.Itoa(y)
	switch {
	case y == 0 || (y >= 1901 && y <= 2155):
		c.want = []string{"n:" + strconv.Itoa(y)}
	case y >= 1 && y <= 69:
		c.rep, c.why = repRounded, "two-digit year"
		c.want = []string{"n:" + strconv.Itoa(2000+y)}
	case y >= 70 && y <= 99:
		c.rep, c.why = repRounded, "two-digit year"
		c.want = []string{"n:" + strconv.Itoa(1900+y)}
	default:
		c.rep, c.why = repNot, "outside 1901..2155"
		c.ignore = []string{"n:0"}
	}
	return c
}

var enumMembers = []string{"small", "medium", "large"}
var setMembers = []string{"a", "b", "c", "d"}

func genEnumCase(rt *rapid.T) tcase {
	c := tcase{family: "enum", ddl: "ENUM('small','medium','large')"}
	c.boundary = true
	if rapid.Bool().Draw(rt, "byindex") {
		i := rapid.IntRange(-1, 5).Draw(rt, "idx")
		c.lit, c.raw = strconv.Itoa(i), int64(i)
		c.side = "index " + c.lit
		if i >= 1 && i <= len(enumMembers) {
			c.want = []string{"s:" + enumMembers[i-1]}
		} else {
			c.rep, c.why = repNot, "not an index of a member"
			c.ignore = []string{"s:"}
		}
		return c
	}
	s := rapid.SampledFrom([]string{"small", "medium", "large", "tiny", "SMALL", "smal", "", "larger"}).Draw(rt, "label")
	c.lit, c.raw = sqlString(s), s
	c.side = "label " + c.lit
	for _, m := range enumMembers {
		if m == s {
			c.want = []string{"s:" + s}
			return c
		}
	}
	c.rep, c.why = repNot, "not a member"
	c.ignore = []string{"s:"}
	return c
}

func genSetCase(rt *rapid.T) tcase {
	c := tcase{family: "set", ddl: "SET('a','b','c','d')"}
	c.boundary = true
	canon := func(bits int) string {
		var p []string
		for i, m := range setMembers {
			if bits&(1<<uint(i)) != 0 {
				p = append(p, m)
			}
		}
		return "s:" + strings.Join(p, ",")
	}
	if rapid.Bool().Draw(rt, "bybits") {
		b := rapid.IntRange(-1, 18).Draw(rt, "bits")
		c.lit, c.raw = strconv.Itoa(b), int64(b)
		c.side = "bits " + c.lit
		if b >= 0 && b <= 15 {
			c.want = []string{canon(b)}
		} else {
			c.rep, c.why = repNot, "bits outside the member mask"
			c.ignore = []string{"s:"}
			c.ignore = append(c.ignore, canon(b&15), canon(15))
		}
		return c
	}
	n := rapid.IntRange(0, 3).Draw(rt, "n")
	var parts []string
	bits, bad := 0, false
	for i := 0; i < n; i++ {
		m := rapid.SampledFrom([]string{"a", "b", "c", "d", "e", "A", "ab"}).Draw(rt, fmt.Sprintf("m%d", i))
		parts = append(parts, m)
		found := false
		for j, x := range setMembers {
			if x == m {
				bits |= 1 << uint(j)
				found = true
			}
		}
		bad = bad || !found
	}
	s := strings.Join(parts, ",")
	c.lit, c.raw = sqlString(s), s
	c.side = "labels " + c.lit
	if !bad {
		c.want = []string{canon(bits)}
		return c
	}
	c.rep, c.why = repNot, "contains a non-member"
	c.ignore = []string{"s:", canon(bits)}
	return c
}

func genBitCase(rt *rapid.T) tcase {
	n := rapid.SampledFrom([]int{1, 4, 8, 31, 63, 64}).Draw(rt, "bits")
	c := tcase{family: "bit", ddl: fmt.Sprintf("BIT(%d)", n)}
	hi := new(big.Int).Sub(pow2(uint(n)), bi(1))
	v, side := nearBound(rt, big.NewInt(0), hi, "v")
	if n == 64 && v.Sign() < 0 {
		// MySQL stores the two's-complement bit pattern of a negative number in BIT(64): not an
		// out-of-range case, and not a value this property speaks about
		v = new(big.Int).Neg(v)
		side = ""
	}
	c.lit, c.raw = v.String(), rawInt(v)
	c.side, c.boundary = side, side != ""
	if v.Sign() >= 0 && v.Cmp(hi) <= 0 {
		c.want = []string{nInt(v)}
		return c
	}
	c.rep, c.why = repNot, "does not fit the bits"
	c.ignore = []string{nInt(clampInt(v, big.NewInt(0), hi))}
	if v.Sign() < 0 {
		// the bit pattern of a negative number overflows the column: MySQL stores all ones
		c.ignore = append(c.ignore, nInt(hi))
	}
	return c
}

func genJSONCase(rt *rapid.T) tcase {
	c := tcase{family: "json", ddl: "JSON", boundary: true}
	good := rapid.Bool().Draw(rt, "valid")
	if good {
		doc := rapid.SampledFrom([]string{`{"a": 1}`, `[1, 2, "x"]`, `"s"`, `1`, `null`, `true`, `{"a": {"b": [1.5, null]}}`, `[]`, `{}`, `{"k": "é😀"}`, `-0.5`, `12345678901234`}).Draw(rt, "doc")
		c.lit, c.raw = sqlString(doc), doc
		c.want = []string{"json:" + doc}
		c.side = "valid"
		return c
	}
	doc := rapid.SampledFrom([]string{`{bad`, `{"a": }`, `[1, 2`, `'x'`, ``, `{"a": 1} x`, `tru`, `{"a" 1}`, `[1,]`}).Draw(rt, "baddoc")
	c.lit, c.raw = sqlString(doc), doc
	c.rep, c.why = repNot, "invalid JSON text"
	c.ignoreMayFail = true
	c.ignore = []string{"N"}
	c.side = "invalid " + doc
	return c
}

func genCase(rt *rapid.T) tcase {
	// rapid's IntRange favours the ends of the range; the low bits of a wide draw are close to uniform
	switch int(rapid.Uint64().Draw(rt, "family") % 20) {
	case 0, 1, 2, 3:
		return genIntegerCase(rt)
	case 4:
		return genEnumCase(rt)
	case 5, 6, 7:
		return genDecimalCase(rt)
	case 8:
		return genFloatCase(rt)
	case 9, 10, 11:
		return genStringCase(rt)
	case 12, 13, 14:
		return genTemporalCase(rt)
	case 15:
		return genTimeCase(rt)
	case 16:
		return genYearCase(rt)
	case 17:
		return genSetCase(rt)
	case 18:
		return genBitCase(rt)
	}
	return genJSONCase(rt)
}
