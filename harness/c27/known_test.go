package c27

import (
	"math/big"
	"strings"
	"testing"

	"github.com/dolthub/go-mysql-server/vh/internal/kf"
	"github.com/dolthub/go-mysql-server/vh/internal/stats"
	"pgregory.net/rapid"
)

// Known findings of C27 (see /verif/notes/C27.md). region: predicate on the inputs and the
// route, used to steer the main search around a *listed* finding; signature: narrow predicate
// on inputs + observed outcome, the only way a violation is ever suppressed.
const (
	// INSERT IGNORE of a negative number into an unsigned integer column stores 2^bits + v
	// (number.go Convert: uint8(math.MaxUint8 + num + 1), Underflow) instead of 0.
	kfUnsignedWrap = "C27-unsigned-underflow-wrap"
	// An integer above the BIGINT range given as text or as a floating point number whose
	// float64 value is exactly 2^63 (2^63 .. 2^63+1024) is stored as -9223372036854775808
	// without error or warning (convertToInt64: the float path tests
	// v > float64(math.MaxInt64) == 2^63, which is false for 2^63, and int64(2^63) wraps).
	kfBigintWrap = "C27-bigint-2pow63-wrap"
	// INSERT IGNORE of malformed numeric text ('8454143x') whose numeric prefix is out of
	// range for the integer column stores the prefix unclamped (MEDIUMINT holds 8454143) or
	// wrapped to the Go type (ConvertRound returns before the range check when err != nil).
	kfIgnoreMalformed = "C27-ignore-malformed-unclamped"
	// Numeric text with a fractional part (or beyond the BIGINT range) is converted to an
	// integer column through float64 (convertToInt64/convertToUint64 string case with
	// rounding: strconv.ParseFloat): above 2^53 the stored integer silently differs from the
	// text ('655275335755491821.5' is stored as 655275335755491840 in strict mode; the
	// out-of-range '-9223372036854775853' is stored as -9223372036854775808).
	kfTextViaFloat = "C27-integer-text-via-float64"
	// text without any digit ('', ' ', '-', '.') is stored as 0 into numeric columns without
	// error or warning (TruncateStringToInt/Double return "0" and report no truncation).
	kfBlankZero = "C27-blank-string-as-zero"
	// TIME values beyond +-838:59:59 are clamped silently (no error in strict mode, no warning).
	kfTimeClamp = "C27-time-silent-clamp"
	// INSERT IGNORE of an out-of-range DECIMAL / BIT / TIME (hours >= 1000) stores the zero
	// value (with a warning) instead of the nearest representable value.
	kfIgnoreZero = "C27-ignore-zero-not-nearest"
	// INSERT IGNORE of an over-long string cuts at the byte index of the character limit
	// (rowexec/insert.go convertDataAndWarn: row[i].(string)[:maxLength]): multi-byte strings
	// are cut short or inside a character (then the statement fails), VARBINARY fails, and a
	// non-string value (number literal) panics on the type assertion.
	kfIgnoreOverlong = "C27-ignore-overlong-byte-cut"
)

func isBlankNumber(c tcase) bool {
	if c.family != "integer" && c.family != "decimal" && c.family != "float" {
		return false
	}
	if !strings.HasPrefix(c.lit, "'") {
		return false
	}
	t := strings.Trim(c.lit, "'")
	return strings.Trim(t, " \t-+.") == "" // no digit at all
}

// floatPath: integer column whose input is numeric text (or a floating point literal) that
// the engine converts through float64: text with a '.' or exponent, or an integer text that
// strconv.ParseInt (ParseUint for BIGINT UNSIGNED) rejects as out of range. fv is its float64 value.
func floatPath(c tcase) (fv float64, ok bool) {
	if c.family != "integer" || c.numText == "" {
		return 0, false
	}
	t := strings.TrimSuffix(c.numText, ".")
	r, isNum := new(big.Rat).SetString(t)
	if !isNum {
		return 0, false
	}
	via := strings.ContainsAny(c.numText, ".eE")
	if !via && r.IsInt() {
		if c.ddl == "BIGINT UNSIGNED" {
			via = !r.Num().IsUint64() && !r.Num().IsInt64()
		} else {
			via = !r.Num().IsInt64()
		}
	}
	if !via {
		return 0, false
	}
	fv, _ = new(big.Float).SetRat(r).Float64()
	return fv, true
}

// floatEdge: the float64 value is exactly 2^63: the boundary test of convertToInt64
// (v > float64(math.MaxInt64), which is 2^63) lets it through and int64(v) wraps to MinInt64.
// (Text just below -2^63, e.g. '-9223372036854775853', whose float64 value is the in-range
// -2^63, is stored as -2^63: that is the lossy float path, kfTextViaFloat.)
func floatEdge(c tcase) bool {
	fv, ok := floatPath(c)
	if !ok || c.ddl == "BIGINT UNSIGNED" {
		return false
	}
	return fv == 9223372036854775808.0
}

// lossyEdge: the float64 value is 2^63 but the exact (rounded) value of the text is still
// within BIGINT ('9223372036854775806.', '9223372036854775807.4'): on the unchanged tree it is
// stored as -2^63 (kfBigintWrap); once the 2^63 boundary test is repaired it is rejected or
// clamped to the maximum although it is representable, which is the lossy float parse
// (kfTextViaFloat). Only both repairs together make it right.
func lossyEdge(c tcase) bool {
	if !floatEdge(c) {
		return false
	}
	r, ok := new(big.Rat).SetString(strings.TrimSuffix(c.numText, "."))
	if !ok {
		return false
	}
	return roundHalfAway(r, 0).Num().Cmp(new(big.Int).Sub(pow2(63), bi(1))) <= 0
}

// floatLossy: the float64 value differs from the exact value (more than 53 significant bits).
func floatLossy(c tcase) bool {
	fv, ok := floatPath(c)
	if !ok || strings.Contains(c.numText, "e") {
		return false
	}
	r, _ := new(big.Rat).SetString(strings.TrimSuffix(c.numText, "."))
	return new(big.Rat).SetFloat64(fv).Cmp(r) != 0 && (fv >= 9007199254740992 || fv <= -9007199254740992)
}

// viaFloatStored: what storing round(fv) clamped to the column gives.
func viaFloatStored(c tcase) string {
	fv, _ := floatPath(c)
	r := roundHalfAway(new(big.Rat).SetFloat64(fv), 0).Num()
	for _, t := range intTypes {
		if t.name == c.ddl {
			return nInt(clampInt(r, t.min(), t.max()))
		}
	}
	return ""
}

// malformedTailOutOfRange: integer column, INSERT IGNORE of '<n><garbage>' with n out of range.
func malformedTailOutOfRange(c tcase) (*big.Int, bool) {
	if c.family != "integer" || c.side != "malformed-tail" || len(c.ignore) == 0 {
		return nil, false
	}
	t := strings.Trim(c.lit, "'")
	end := 0
	for end < len(t) && (t[end] == '-' && end == 0 || t[end] >= '0' && t[end] <= '9') {
		end++
	}
	n, ok := new(big.Int).SetString(t[:end], 10)
	if !ok {
		return nil, false
	}
	return n, "n:"+n.String() != c.ignore[0]
}

func isUnsignedInt(c tcase) bool {
	return c.family == "integer" && strings.HasSuffix(c.ddl, "UNSIGNED")
}

func overlongSpecial(c tcase) bool {
	if c.rep != repNot {
		return false
	}
	switch c.family {
	case "varbinary":
		return true
	case "varchar", "char":
		return c.nonString || strings.Contains(c.side, "multibyte")
	}
	return false
}

// region names the known finding whose input region contains (c, route), "" if none.
func region(c tcase, route string) string {
	switch {
	case isBlankNumber(c):
		return kfBlankZero
	case isUnsignedInt(c) && c.rep == repNot && c.ival != nil && c.ival.Sign() < 0 && route == "ignore":
		return kfUnsignedWrap
	case lossyEdge(c) && (c.ddl == "BIGINT" || route == "ignore"):
		return firstListed(kfBigintWrap, kfTextViaFloat)
	case floatEdge(c) && (c.ddl == "BIGINT" || route == "ignore"):
		return kfBigintWrap
	case floatLossy(c) && route != "api":
		return kfTextViaFloat
	case c.family == "time" && c.rep == repNot && strings.HasPrefix(c.why, "beyond"):
		if route == "ignore" && strings.Contains(c.lit, "1000:") {
			return kfIgnoreZero
		}
		return kfTimeClamp
	case (c.family == "decimal" || c.family == "bit") && c.rep == repNot && route == "ignore" && !strings.HasPrefix(c.side, "malformed"):
		return kfIgnoreZero
	case overlongSpecial(c) && route == "ignore":
		return kfIgnoreOverlong
	}
	if n, out := malformedTailOutOfRange(c); out && route == "ignore" {
		if isUnsignedInt(c) && n.Sign() < 0 {
			return firstListed(kfIgnoreMalformed, kfUnsignedWrap)
		}
		return kfIgnoreMalformed
	}
	return ""
}

// firstListed: for an input on which two findings produce the same wrong outcome ('-5x' under
// INSERT IGNORE into TINYINT UNSIGNED is stored as 251 both by the early return of ConvertRound
// and, once that is repaired, by the unsigned wrap of Convert) the violation is attributed to
// whichever of them is still listed; the first one if none is.
func firstListed(ids ...string) string {
	for _, id := range ids {
		if kf.Listed(id) {
			return id
		}
	}
	return ids[0]
}

func isZeroNorm(n string) bool {
	if n == "d:0" {
		return true
	}
	if strings.HasPrefix(n, "n:") || strings.HasPrefix(n, "f:") {
		r, ok := new(big.Rat).SetString(n[2:])
		return ok && r.Sign() == 0
	}
	return false
}

// signature names the known finding whose defect produces exactly the observed outcome.
func signature(c tcase, o outcome, why string) string {
	switch {
	case isBlankNumber(c) && !o.panicked && !o.failed && o.stored && isZeroNorm(o.norm) && o.warnings == 0:
		return kfBlankZero

	case isUnsignedInt(c) && o.route == "ignore" && c.rep == repNot && c.ival != nil && c.ival.Sign() < 0 && o.stored && !o.failed && o.warnings > 0:
		// stored == v mod 2^k for the declared width or the width of the Go type
		got, ok := new(big.Int).SetString(strings.TrimPrefix(o.norm, "n:"), 10)
		if !ok {
			return ""
		}
		for _, k := range []uint{8, 16, 24, 32, 64} {
			// 2^k + v, give or take the rounding of a fractional input on the float path
			for _, d := range []int64{0, 1, -1} {
				w := new(big.Int).Add(c.ival, bi(d))
				if w.Mod(w, pow2(k)).Cmp(got) == 0 {
					return kfUnsignedWrap
				}
			}
		}
		if c.ddl == "MEDIUMINT UNSIGNED" { // uint32(1<<24 + v)
			w := new(big.Int).Add(pow2(24), c.ival)
			if w.Mod(w, pow2(32)).Cmp(got) == 0 {
				return kfUnsignedWrap
			}
		}
		// a negative DECIMAL into BIGINT UNSIGNED: (2^64-1) - v, rounded, low 64 bits = -v-1
		if c.ddl == "BIGINT UNSIGNED" {
			w := new(big.Int).Neg(c.ival)
			w.Sub(w, bi(1))
			if w.Mod(w, pow2(64)).Cmp(got) == 0 {
				return kfUnsignedWrap
			}
		}

	case floatEdge(c) && c.ddl == "BIGINT" && o.stored && !o.failed && o.norm == "n:-9223372036854775808":
		return kfBigintWrap

	case floatLossy(c) && (!floatEdge(c) || lossyEdge(c)) && o.route != "api" && o.stored && !o.failed && o.norm == viaFloatStored(c):
		return kfTextViaFloat

	case floatEdge(c) && c.ddl != "BIGINT" && o.route == "ignore" && o.stored && !o.failed && o.warnings > 0:
		// the value is treated as -2^63: signed types clamp to their minimum, unsigned types wrap it
		switch {
		case !isUnsignedInt(c) && len(c.want) == 0 && strings.HasPrefix(o.norm, "n:-"):
			for _, t := range intTypes {
				if t.name == c.ddl && o.norm == nInt(t.min()) {
					return kfBigintWrap
				}
			}
		case isUnsignedInt(c) && (o.norm == "n:0" || (c.ddl == "MEDIUMINT UNSIGNED" && o.norm == "n:16777216")):
			return kfBigintWrap
		}

	case c.family == "time" && c.rep == repNot && strings.HasPrefix(c.why, "beyond") && o.stored && !o.failed && len(c.ignore) == 1 && o.norm == c.ignore[0] && o.warnings == 0:
		return kfTimeClamp

	case (c.family == "decimal" || c.family == "bit" || c.family == "time") && c.rep == repNot && o.route == "ignore" && !strings.HasPrefix(c.side, "malformed") && c.side != "invalid" &&
		o.stored && !o.failed && isZeroNorm(o.norm) && o.warnings > 0:
		return kfIgnoreZero

	case c.side == "malformed-tail" && o.route == "ignore" && o.stored && !o.failed && o.warnings > 0:
		n, out := malformedTailOutOfRange(c)
		got, ok := new(big.Int).SetString(strings.TrimPrefix(o.norm, "n:"), 10)
		if !out || !ok {
			return ""
		}
		if got.Cmp(n) == 0 {
			return kfIgnoreMalformed // the out-of-range prefix itself (MEDIUMINT lives in an int32)
		}
		for _, k := range []uint{8, 16, 24, 32, 64} {
			m := new(big.Int).Mod(n, pow2(k))
			if m.Cmp(got) == 0 || new(big.Int).Sub(m, pow2(k)).Cmp(got) == 0 {
				if isUnsignedInt(c) && n.Sign() < 0 {
					return firstListed(kfIgnoreMalformed, kfUnsignedWrap)
				}
				if k != 24 {
					return kfIgnoreMalformed // wrapped to the Go type
				}
			}
		}

	case overlongSpecial(c) && o.route == "ignore":
		switch {
		case o.panicked && strings.Contains(o.errText, "interface conversion") && strings.Contains(o.errText, "not string") && (c.nonString || c.family == "varbinary"):
			return kfIgnoreOverlong
		case o.failed && !o.stored && (strings.Contains(o.errText, "invalid type") || strings.Contains(o.errText, "Expected Value Type")):
			return kfIgnoreOverlong
		case o.stored && !o.failed && o.warnings > 0 && len(c.ignore) == 1 && strings.HasPrefix(c.ignore[0], o.norm) && len(o.norm) < len(c.ignore[0]):
			return kfIgnoreOverlong // a shorter prefix of the expected truncation
		}
	}
	return ""
}

// witnesses: one minimal input per finding.
func witnesses() []tcase {
	zeroU8 := []string{"n:0"}
	return []tcase{
		{family: "integer", ddl: "TINYINT UNSIGNED", lit: "-1", raw: int64(-1), rep: repNot, why: "out of range", ignore: zeroU8, ival: bi(-1), side: "below-min", boundary: true},
		{family: "integer", ddl: "BIGINT", lit: "'9223372036854775808'", raw: "9223372036854775808", numText: "9223372036854775808", rep: repNot, why: "out of range", ignore: []string{"n:9223372036854775807"}, ival: pow2(63), side: "power-of-two", boundary: true},
		{family: "integer", ddl: "BIGINT", lit: "'655275335755491821.5'", numText: "655275335755491821.5", rep: repRounded, why: "fraction rounds to 655275335755491822", want: []string{"n:655275335755491822"}, ival: bi(655275335755491822), side: "fraction string", boundary: true},
		{family: "integer", ddl: "BIGINT", lit: "'-9223372036854775853'", raw: "-9223372036854775853", numText: "-9223372036854775853", rep: repNot, why: "out of range", ignore: []string{"n:-9223372036854775808"}, ival: new(big.Int).Sub(new(big.Int).Neg(pow2(63)), bi(45)), side: "below-min string", boundary: true},
		{family: "integer", ddl: "MEDIUMINT", lit: "'8454143x'", rep: repNot, why: "malformed number", ignore: []string{"n:8388607", "n:0"}, side: "malformed-tail", boundary: true},
		{family: "integer", ddl: "INT", lit: "''", raw: "", rep: repNot, why: "not a number", ignore: []string{"n:0"}, side: "malformed ''", boundary: true},
		{family: "time", ddl: "TIME(6)", lit: "'839:00:00'", raw: "839:00:00", rep: repNot, why: "beyond +-838:59:59", ignore: []string{"d:3020399000000"}, side: "out-of-range", boundary: true},
		{family: "decimal", ddl: "DECIMAL(5,2)", lit: "1000", raw: int64(1000), rep: repNot, why: "out of range", ignore: []string{"n:99999/100"}, side: "above-max", boundary: true},
		{family: "bit", ddl: "BIT(4)", lit: "16", raw: int64(16), rep: repNot, why: "does not fit the bits", ignore: []string{"n:15"}, side: "above-max", boundary: true},
		{family: "varchar", ddl: "VARCHAR(3)", lit: "'aááá'", raw: "aááá", rep: repNot, why: "4 units, limit 3", ignore: []string{"s:aáá"}, side: "len+1 multibyte", boundary: true},
		{family: "varchar", ddl: "VARCHAR(3)", lit: "12345", raw: int64(12345), rep: repNot, why: "5 units, limit 3", ignore: []string{"s:123"}, side: "len+2", nonString: true, boundary: true},
		{family: "varbinary", ddl: "VARBINARY(3)", lit: "'abcd'", raw: "abcd", rep: repNot, why: "4 units, limit 3", ignore: []string{"s:abc"}, side: "len+1", boundary: true},
	}
}

// TestC27Known re-confirms the witnesses of the known findings and then searches inside
// their regions without exclusion: every violation there must match its signature.
func TestC27Known(t *testing.T) {
	st := stats.New("C27", "known")
	defer st.Flush()
	ws := witnesses()
	i := 0
	rapid.Check(t, func(rt *rapid.T) {
		if i < len(ws) {
			c := ws[i]
			i++
			checkCase(rt, st, c, false)
			return
		}
		c := genCase(rt)
		in := false
		for _, route := range []string{"api", "strict", "ignore"} {
			if region(c, route) != "" {
				in = true
			}
		}
		if !in {
			return
		}
		checkCase(rt, st, c, false)
	})
}
