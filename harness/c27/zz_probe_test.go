package c27

// TEMPORARY probe (deleted before hand-over): runs the statements of $C27_PROBE (separated by ";;").

import (
	"os"
	"strings"
	"testing"

	"github.com/dolthub/go-mysql-server/vh/internal/fx"
)

func TestZZProbe(t *testing.T) {
	src := os.Getenv("C27_PROBE")
	if src == "" {
		t.Skip()
	}
	if b, err := os.ReadFile(src); err == nil {
		src = string(b)
	}
	f := fx.New(fx.Opts{})
	defer f.Close()
	s := f.NewSession("", "", "")
	for _, q := range strings.Split(src, ";;") {
		q = strings.TrimSpace(q)
		if q == "" {
			continue
		}
		r := s.Exec(q)
		out := r.String()
		if r.Panic != nil {
			out = "PANIC " + out
			f = fx.New(fx.Opts{})
			s = f.NewSession("", "", "")
		}
		t.Logf("%s\n    => %s  warnings=%v", q, out, r.Warnings)
	}
}
