package c27

import (
	"fmt"
	"os"
	"strings"
	"testing"

	"github.com/dolthub/go-mysql-server/vh/internal/fx"
)

func TestProbe(t *testing.T) {
	b, err := os.ReadFile(os.Getenv("PROBE"))
	if err != nil {
		t.Skip()
	}
	f := fx.New(fx.Opts{})
	defer f.Close()
	s := f.NewSession("", "", "")
	for _, q := range strings.Split(string(b), "\n") {
		q = strings.TrimSpace(q)
		if q == "" || strings.HasPrefix(q, "#") {
			continue
		}
		r := s.Exec(q)
		ty := ""
		if r.OK() {
			for _, c := range r.Schema {
				ty += " " + c.Type.String()
			}
			for _, row := range r.Rows {
				for _, v := range row {
					ty += fmt.Sprintf(" <%T>", v)
				}
			}
		}
		w := ""
		for _, x := range r.Warnings {
			w += fmt.Sprintf(" W%d:%s", x.Code, x.Message)
		}
		fmt.Printf("%-70s => %s  [%s]%s\n", q, r, strings.TrimSpace(ty), w)
	}
}
