// Package c31 checks property C31: date and time values parse, format and compute
// consistently. This file is the reference side: a proleptic Gregorian calendar built on
// Go's time package (UTC), a formatter for MySQL DATE_FORMAT specifiers written from the
// manual's table, MySQL's interval addition rule (end-of-month clamp) and the
// DATEDIFF / TIMESTAMPDIFF definitions.
package c31

import (
	"fmt"
	"math/big"
	"regexp"
	"strconv"
	"strings"
	"time"

	"github.com/dolthub/go-mysql-server/sql/types"
)

func init() {
	// The check fixes the process time zone to UTC (dateparse uses time.Local for %j).
	time.Local = time.UTC
}

// fields is a broken-down date/time whose components may be out of range (used to
// render invalid date strings). doy, when > 0 or forced, overrides the day of year
// printed by %j.
type fields struct {
	Y, M, D, h, mi, s, us int
	doy                   int // raw day-of-year for %j when forceDoy
	forceDoy              bool
}

func leap(y int) bool { return y%4 == 0 && (y%100 != 0 || y%400 == 0) }

func dim(y, m int) int {
	switch m {
	case 4, 6, 9, 11:
		return 30
	case 2:
		if leap(y) {
			return 29
		}
		return 28
	}
	return 31
}

func (f fields) validDate() bool {
	return f.Y >= 1 && f.Y <= 9999 && f.M >= 1 && f.M <= 12 && f.D >= 1 && f.D <= dim(f.Y, f.M)
}

func (f fields) validTime() bool {
	return f.h >= 0 && f.h <= 23 && f.mi >= 0 && f.mi <= 59 && f.s >= 0 && f.s <= 59 && f.us >= 0 && f.us <= 999999
}

func (f fields) time() time.Time {
	return time.Date(f.Y, time.Month(f.M), f.D, f.h, f.mi, f.s, f.us*1000, time.UTC)
}

func fieldsOf(t time.Time) fields {
	return fields{Y: t.Year(), M: int(t.Month()), D: t.Day(), h: t.Hour(), mi: t.Minute(), s: t.Second(), us: t.Nanosecond() / 1000}
}

func (f fields) micros() int64 { return f.time().UnixMicro() }

func (f fields) dayMicros() int64 {
	return ((int64(f.h)*60+int64(f.mi))*60+int64(f.s))*1e6 + int64(f.us)
}

func (f fields) dateStr() string { return fmt.Sprintf("%04d-%02d-%02d", f.Y, f.M, f.D) }
func (f fields) timeStr() string { return fmt.Sprintf("%02d:%02d:%02d", f.h, f.mi, f.s) }
func (f fields) String() string {
	return fmt.Sprintf("%s %s.%06d", f.dateStr(), f.timeStr(), f.us)
}

var monthNames = []string{"", "January", "February", "March", "April", "May", "June", "July", "August", "September", "October", "November", "December"}

// tok is one element of a format: a specifier (%c) or literal text.
type tok struct {
	spec byte   // 0 for a literal
	lit  string // literal text (never contains '%', letters or digits)
}

type format struct {
	toks    []tok
	hasDate bool
	hasTime bool
	hasFrac bool
	uses12h bool // %h %I %l %r (+ %p)
	usesYY  bool
	usesJ   bool
	usesNam bool // %b %M
}

func (f format) String() string {
	var sb strings.Builder
	for _, t := range f.toks {
		if t.spec != 0 {
			sb.WriteByte('%')
			sb.WriteByte(t.spec)
		} else {
			sb.WriteString(t.lit)
		}
	}
	return sb.String()
}

func (f format) has(spec byte) bool {
	for _, t := range f.toks {
		if t.spec == spec {
			return true
		}
	}
	return false
}

func daySuffix(d int) string {
	// manual: "Day of the month with English suffix (0th, 1st, 2nd, 3rd, …)"
	if d%100 >= 11 && d%100 <= 13 {
		return "th"
	}
	switch d % 10 {
	case 1:
		return "st"
	case 2:
		return "nd"
	case 3:
		return "rd"
	}
	return "th"
}

func hour12(h int) (int, string) {
	ap := "AM"
	if h >= 12 {
		ap = "PM"
	}
	h12 := h % 12
	if h12 == 0 {
		h12 = 12
	}
	return h12, ap
}

// refOpts are deliberate deviations from the manual used only to *recognise* known
// findings (signature predicates); the oracle always uses the zero value.
type refOpts struct {
	yyUnpadded bool // %y printed without zero padding
}

// refFormat renders fields under a format exactly as the manual's specifier table says.
// raw12 (for invalid-input rendering) prints f.h as is for the 12-hour specifiers and
// takes AM/PM from pm.
func refFormat(f fields, ft format, o refOpts) string {
	var sb strings.Builder
	for _, t := range ft.toks {
		if t.spec == 0 {
			sb.WriteString(t.lit)
			continue
		}
		h12, ap := hour12(f.h)
		switch t.spec {
		case 'Y':
			fmt.Fprintf(&sb, "%04d", f.Y)
		case 'y':
			if o.yyUnpadded {
				fmt.Fprintf(&sb, "%d", f.Y%100)
			} else {
				fmt.Fprintf(&sb, "%02d", f.Y%100)
			}
		case 'm':
			fmt.Fprintf(&sb, "%02d", f.M)
		case 'c':
			fmt.Fprintf(&sb, "%d", f.M)
		case 'b':
			sb.WriteString(monthNames[f.M][:3])
		case 'M':
			sb.WriteString(monthNames[f.M])
		case 'd':
			fmt.Fprintf(&sb, "%02d", f.D)
		case 'e':
			fmt.Fprintf(&sb, "%d", f.D)
		case 'D':
			fmt.Fprintf(&sb, "%d%s", f.D, daySuffix(f.D))
		case 'j':
			doy := f.doy
			if !f.forceDoy {
				doy = f.time().YearDay()
			}
			fmt.Fprintf(&sb, "%03d", doy)
		case 'H':
			fmt.Fprintf(&sb, "%02d", f.h)
		case 'k':
			fmt.Fprintf(&sb, "%d", f.h)
		case 'h', 'I':
			fmt.Fprintf(&sb, "%02d", h12)
		case 'l':
			fmt.Fprintf(&sb, "%d", h12)
		case 'p':
			sb.WriteString(ap)
		case 'i':
			fmt.Fprintf(&sb, "%02d", f.mi)
		case 's', 'S':
			fmt.Fprintf(&sb, "%02d", f.s)
		case 'f':
			fmt.Fprintf(&sb, "%06d", f.us)
		case 'T':
			fmt.Fprintf(&sb, "%02d:%02d:%02d", f.h, f.mi, f.s)
		case 'r':
			fmt.Fprintf(&sb, "%02d:%02d:%02d %s", h12, f.mi, f.s, ap)
		case '%':
			sb.WriteByte('%')
		default:
			panic("refFormat: unsupported specifier " + string(t.spec))
		}
	}
	return sb.String()
}

// rawFormat renders possibly invalid fields: numbers are printed as they are; for the
// 12-hour specifiers the hour number h12 and the AM/PM flag are given explicitly.
func rawFormat(f fields, ft format, h12 int, pm bool) string {
	var sb strings.Builder
	ap := "AM"
	if pm {
		ap = "PM"
	}
	for _, t := range ft.toks {
		if t.spec == 0 {
			sb.WriteString(t.lit)
			continue
		}
		switch t.spec {
		case 'Y':
			fmt.Fprintf(&sb, "%04d", f.Y)
		case 'y':
			fmt.Fprintf(&sb, "%02d", f.Y%100)
		case 'm':
			fmt.Fprintf(&sb, "%02d", f.M)
		case 'c':
			fmt.Fprintf(&sb, "%d", f.M)
		case 'b':
			sb.WriteString(monthNames[f.M][:3])
		case 'M':
			sb.WriteString(monthNames[f.M])
		case 'd':
			fmt.Fprintf(&sb, "%02d", f.D)
		case 'e':
			fmt.Fprintf(&sb, "%d", f.D)
		case 'D':
			fmt.Fprintf(&sb, "%d%s", f.D, daySuffix(f.D))
		case 'j':
			fmt.Fprintf(&sb, "%03d", f.doy)
		case 'H':
			fmt.Fprintf(&sb, "%02d", f.h)
		case 'k':
			fmt.Fprintf(&sb, "%d", f.h)
		case 'h', 'I':
			fmt.Fprintf(&sb, "%02d", h12)
		case 'l':
			fmt.Fprintf(&sb, "%d", h12)
		case 'p':
			sb.WriteString(ap)
		case 'i':
			fmt.Fprintf(&sb, "%02d", f.mi)
		case 's', 'S':
			fmt.Fprintf(&sb, "%02d", f.s)
		case 'f':
			fmt.Fprintf(&sb, "%06d", f.us)
		case 'T':
			fmt.Fprintf(&sb, "%02d:%02d:%02d", f.h, f.mi, f.s)
		case 'r':
			fmt.Fprintf(&sb, "%02d:%02d:%02d %s", h12, f.mi, f.s, ap)
		case '%':
			sb.WriteByte('%')
		default:
			panic("rawFormat: unsupported specifier " + string(t.spec))
		}
	}
	return sb.String()
}

// ---------------------------------------------------------------------------------------
// interval arithmetic

type unit struct {
	name   string
	micros int64 // > 0 for fixed-length units
	months int   // > 0 for month-based units
}

var units = []unit{
	{"MICROSECOND", 1, 0},
	{"SECOND", 1e6, 0},
	{"MINUTE", 60e6, 0},
	{"HOUR", 3600e6, 0},
	{"DAY", 86400e6, 0},
	{"WEEK", 7 * 86400e6, 0},
	{"MONTH", 0, 1},
	{"QUARTER", 0, 3},
	{"YEAR", 0, 12},
}

var (
	minMicros = fields{Y: 1000, M: 1, D: 1}.micros()
	maxMicros = fields{Y: 9999, M: 12, D: 31, h: 23, mi: 59, s: 59, us: 999999}.micros()
)

// addMonths applies MySQL's month arithmetic: the day is kept unless it exceeds the
// length of the target month, in which case it is clamped (manual, DATE_ADD: "If you add
// MONTH, YEAR_MONTH, or YEAR and the resulting date has a day that is larger than the
// maximum day for the new month, the day is adjusted to the maximum days in the new month").
func addMonths(f fields, n int64) (res fields, clamped, inRange bool) {
	tot := big.NewInt(int64(f.Y)*12 + int64(f.M) - 1)
	tot.Add(tot, big.NewInt(n))
	if !tot.IsInt64() {
		return f, false, false
	}
	t := tot.Int64()
	if t < 1000*12 || t > 9999*12+11 {
		return f, false, false
	}
	res = f
	res.Y = int(t / 12)
	res.M = int(t%12) + 1
	if d := dim(res.Y, res.M); res.D > d {
		res.D = d
		clamped = true
	}
	return res, clamped, true
}

// addInterval returns f + n*unit. inRange is false when the exact result leaves
// 1000-01-01 … 9999-12-31 23:59:59.999999 (nothing is asserted then).
func addInterval(f fields, u unit, n int64) (res fields, clamped, inRange bool) {
	if u.months > 0 {
		m := new(big.Int).Mul(big.NewInt(n), big.NewInt(int64(u.months)))
		if !m.IsInt64() {
			return f, false, false
		}
		return addMonths(f, m.Int64())
	}
	d := new(big.Int).Mul(big.NewInt(n), big.NewInt(u.micros))
	d.Add(d, big.NewInt(f.micros()))
	if !d.IsInt64() {
		return f, false, false
	}
	v := d.Int64()
	if v < minMicros || v > maxMicros {
		return f, false, false
	}
	return fieldsOf(time.UnixMicro(v).UTC()), false, true
}

func dayNumber(f fields) int64 {
	return time.Date(f.Y, time.Month(f.M), f.D, 0, 0, 0, 0, time.UTC).Unix() / 86400
}

// refDateDiff: "expr1 − expr2 expressed as a value in days from one date to the other …
// Only the date parts of the values are used in the calculation."
func refDateDiff(a, b fields) int64 { return dayNumber(a) - dayNumber(b) }

// refTimestampDiff returns TIMESTAMPDIFF(unit, a, b) = b − a in whole units (truncated
// toward zero). For month-based units two readings of "whole months between" exist at
// month ends (day-of-month comparison as MySQL implements it, or the largest k with
// a + k months ≤ b under the clamp rule); determined is false when they differ and the
// check then asserts nothing.
func refTimestampDiff(u unit, a, b fields) (v int64, determined bool) {
	if u.months == 0 {
		return (b.micros() - a.micros()) / u.micros, true
	}
	sign := int64(1)
	beg, end := a, b
	if beg.micros() > end.micros() {
		sign = -1
		beg, end = b, a
	}
	// reading 1: compare day-of-month and time-of-day
	m1 := int64(end.Y-beg.Y)*12 + int64(end.M-beg.M)
	if end.D < beg.D || (end.D == beg.D && end.dayMicros() < beg.dayMicros()) {
		m1--
	}
	// reading 2: largest k >= 0 with beg + k months <= end
	m2 := int64(0)
	for k := m1 - 1; k <= m1+2; k++ {
		if k < 0 {
			continue
		}
		r, _, ok := addMonths(beg, k)
		if ok && r.micros() <= end.micros() {
			m2 = k
		}
	}
	if m1 != m2 {
		return 0, false
	}
	return sign * (m1 / int64(u.months)), true
}

// monthsDiffNoMinutes is NOT part of the oracle: it reproduces the month difference with
// the minute fields left out of the clock comparison, and is used only as the signature of
// finding C31-timestampdiff-month-ignores-minutes.
func monthsDiffNoMinutes(u unit, a, b fields) int64 {
	sign := int64(1)
	beg, end := a, b
	if beg.micros() > end.micros() {
		sign = -1
		beg, end = b, a
	}
	m := int64(end.Y-beg.Y)*12 + int64(end.M-beg.M)
	if beg.D > end.D {
		m--
	} else if beg.D == end.D {
		sd := (end.h-beg.h)*3600 + (end.s - beg.s)
		if sd < 0 || (sd == 0 && beg.us > end.us) {
			m--
		}
	}
	return sign * m / int64(u.months)
}

// ---------------------------------------------------------------------------------------
// reading engine values

var dtRe = regexp.MustCompile(`^(\d{4})-(\d{2})-(\d{2})(?:[ T](\d{2}):(\d{2}):(\d{2})(?:\.(\d{1,6}))?)?$`)

// instantOf converts a DATE / DATETIME result (time.Time, or the string form the engine
// returns for string arguments) to microseconds since the epoch.
func instantOf(v any) (int64, bool) {
	switch x := v.(type) {
	case time.Time:
		return x.UTC().UnixMicro(), true
	case string:
		m := dtRe.FindStringSubmatch(x)
		if m == nil {
			return 0, false
		}
		n := func(s string) int { i, _ := strconv.Atoi(s); return i }
		f := fields{Y: n(m[1]), M: n(m[2]), D: n(m[3])}
		if m[4] != "" {
			f.h, f.mi, f.s = n(m[4]), n(m[5]), n(m[6])
			if m[7] != "" {
				f.us = n((m[7] + "000000")[:6])
			}
		}
		if !f.validDate() || !f.validTime() {
			return 0, false
		}
		return f.micros(), true
	case []byte:
		return instantOf(string(x))
	}
	return 0, false
}

// dayMicrosOf extracts the time of day of a TIME result (Timespan) or of a time.Time.
func dayMicrosOf(v any) (int64, bool) {
	switch x := v.(type) {
	case types.Timespan:
		return int64(x), true
	case time.Time:
		return fieldsOf(x.UTC()).dayMicros(), true
	}
	return 0, false
}

func showVal(v any) string {
	switch x := v.(type) {
	case nil:
		return "NULL"
	case time.Time:
		return x.UTC().Format("2006-01-02 15:04:05.000000")
	case types.Timespan:
		return "TIME " + x.String()
	case string:
		return strconv.Quote(x)
	case []byte:
		return strconv.Quote(string(x))
	}
	return fmt.Sprintf("%v", v)
}

func sqlQuote(s string) string {
	return "'" + strings.ReplaceAll(strings.ReplaceAll(s, `\`, `\\`), "'", "''") + "'"
}
