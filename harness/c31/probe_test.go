package c31

import (
	"fmt"
	"os"
	"strings"
	"testing"

	"github.com/dolthub/go-mysql-server/vh/internal/fx"
)

// TestProbe runs the statements of $PROBE_SQL (separated by ";;") and prints results. Development aid.
func TestProbe(t *testing.T) {
	src := os.Getenv("PROBE_SQL")
	if src == "" {
		t.Skip()
	}
	f := fx.New(fx.Opts{})
	defer f.Close()
	s := f.NewSession("", "", "")
	for _, q := range strings.Split(src, ";;") {
		q = strings.TrimSpace(q)
		if q == "" {
			continue
		}
		r := s.Exec(q)
		fmt.Printf("%s\n   => %s", q, r)
		if r.OK() && len(r.Schema) > 0 {
			fmt.Printf("  types:")
			for _, c := range r.Schema {
				fmt.Printf(" %s", c.Type)
			}
		}
		for _, w := range r.Warnings {
			fmt.Printf("  WARN(%d %s)", w.Code, w.Message)
		}
		fmt.Println()
	}
}
