package c31

import (
	"fmt"
	"math/big"
	"os"
	"strings"
	"testing"

	"github.com/dolthub/go-mysql-server/vh/internal/fx"
	"github.com/dolthub/go-mysql-server/vh/internal/kf"
	"github.com/dolthub/go-mysql-server/vh/internal/stats"
	"pgregory.net/rapid"
)

// Proposed known-finding ids (see notes/C31.md). A region is excluded from generation only
// while the id is listed; otherwise the violation fails the check.
const (
	kfStrToDateShift = "C31-strtodate-silent-shift" // STR_TO_DATE normalises out-of-range fields through time.Date, no warning
	kfAmPm           = "C31-strtodate-ampm-ignored" // %p / %r: AM/PM parsed but not applied
	kfYY             = "C31-dateformat-yy-unpadded" // DATE_FORMAT %y prints 5 instead of 05
	kfDurOverflow    = "C31-interval-duration-overflow"
	kfOpFraction     = "C31-interval-operator-drops-fraction"
	kfTsdiffMinutes  = "C31-timestampdiff-month-ignores-minutes"
	kfDatediffSat    = "C31-datediff-saturates" // DATEDIFF of dates > 292 years apart returns ±106752
)

func thorough() bool { return os.Getenv("VERIF_TIER") == "thorough" }

// excluding reports whether the region of finding id is excluded from generation: only
// while the id is listed. VERIF_C31_NOEXCLUDE=1 (development aid) keeps generating inside
// listed regions so that every violation there must match the signature predicate.
func excluding(id string) bool {
	return kf.Listed(id) && os.Getenv("VERIF_C31_NOEXCLUDE") == ""
}

// setup creates the one-row table for column renderings. vals[i] is stored in column v<i>.
func setup(rt *rapid.T, s *fx.Sess, vals []fields, kinds []kind) {
	var cols, lits []string
	for i := range vals {
		cols = append(cols, fmt.Sprintf("v%d %s", i, castType(kinds[i])))
		lits = append(lits, sqlQuote(literal(vals[i], kinds[i])))
	}
	s.MustExec(rt.Fatalf,
		"CREATE TABLE t ("+strings.Join(cols, ", ")+")",
		"INSERT INTO t VALUES ("+strings.Join(lits, ", ")+")")
}

func runSelect(rt *rapid.T, s *fx.Sess, exprs []string, fromTable bool) []any {
	q := "SELECT " + joinSQL(exprs)
	if fromTable {
		q += " FROM t"
	}
	r := s.Exec(q)
	if r.Panic != nil {
		rt.Fatalf("panic: %v\n%s\nSQL: %s", r.Panic, r.Stack, q)
	}
	if !r.OK() {
		rt.Fatalf("statement failed: %s\nSQL: %s", r, q)
	}
	if len(r.Rows) != 1 || len(r.Rows[0]) != len(exprs) {
		rt.Fatalf("expected one row of %d values, got %d rows\nSQL: %s", len(exprs), len(r.Rows), q)
	}
	return r.Rows[0]
}

func valueClasses(st *stats.Collector, f fields, k kind) (nontrivial bool) {
	st.Class("kind:" + k.String())
	if f.D == dim(f.Y, f.M) {
		st.Class("value:month-end")
		nontrivial = true
	}
	if f.M == 2 && f.D == 29 {
		st.Class("value:leap-day")
		nontrivial = true
	}
	if f.us != 0 {
		st.Class("value:micros")
		nontrivial = true
	}
	if (f.M == 1 && f.D == 1) || (f.M == 12 && f.D == 31) {
		st.Class("value:year-boundary")
	}
	if f.h == 0 && f.mi == 0 && f.s == 0 && k != kDate {
		st.Class("value:midnight")
	}
	return nontrivial
}

// ---------------------------------------------------------------------------------------
// Part 1: DATE_FORMAT / STR_TO_DATE are mutual inverses under a complete format

func TestC31(t *testing.T) {
	st := stats.New("C31", "roundtrip")
	defer st.Flush()
	nFormats := 5
	rapid.Check(t, func(rt *rapid.T) {
		st.Eval()
		d, k := genValue(rt, "d")
		rend := rendering(rapid.IntRange(0, 2).Draw(rt, "rendering"))
		f := fx.New(fx.Opts{})
		defer f.Close()
		s := f.NewSession("", "", "")
		if rend == rColumn {
			setup(rt, s, []fields{d}, []kind{k})
		}
		vsql := valueSQL(d, k, rend, 0)

		yyListed, ampmListed := excluding(kfYY), excluding(kfAmPm)
		type fcase struct {
			ft   format
			text string
			sref string
			want fields // d truncated to what the format carries
			// set inside the region of a listed finding
			formatSideOnly, parseSideOnly, skip bool
		}
		var cases []fcase
		var exprs []string
		for i := 0; i < nFormats; i++ {
			withDate, withTime := true, k != kDate
			if k != kDate {
				switch rapid.IntRange(0, 5).Draw(rt, fmt.Sprintf("f%dparts", i)) {
				case 0:
					withTime = false
				case 1:
					withDate = false
				}
			}
			allowYY := d.Y >= 1970 && d.Y <= 2069
			allow12 := true
			ft := genFormat(rt, fmt.Sprintf("f%d", i), fmtOpts{withDate: withDate, withTime: withTime, allowYY: allowYY, allowNames: true, allow12: allow12, allowJ: true})
			want := d
			if !ft.hasDate {
				want.Y, want.M, want.D = 0, 0, 0
			}
			if !ft.hasTime {
				want.h, want.mi, want.s, want.us = 0, 0, 0, 0
			}
			if !ft.hasFrac {
				want.us = 0
			}
			c := fcase{ft: ft, text: ft.String(), sref: refFormat(d, ft, refOpts{}), want: want}
			// Regions of listed findings: the round trip cannot hold there, so only the side
			// that the finding does not touch is checked against the manual's definition.
			inAmPm := ampmListed && ft.uses12h && !(d.h >= 1 && d.h <= 11)
			inYY := yyListed && ft.usesYY && d.Y%100 < 10
			if inAmPm && inYY {
				c.skip = true // both sides are touched by a listed finding
				st.Excluded(kfAmPm)
				st.Excluded(kfYY)
			} else if inAmPm {
				c.formatSideOnly = true // STR_TO_DATE ignores AM/PM: check DATE_FORMAT alone
				st.Excluded(kfAmPm)
			} else if inYY {
				c.parseSideOnly = true // DATE_FORMAT prints %y unpadded: check STR_TO_DATE alone
				st.Excluded(kfYY)
			}
			cases = append(cases, c)
			fq, sq := sqlQuote(c.text), sqlQuote(c.sref)
			exprs = append(exprs,
				fmt.Sprintf("DATE_FORMAT(%s, %s)", vsql, fq),
				fmt.Sprintf("STR_TO_DATE(DATE_FORMAT(%s, %s), %s)", vsql, fq, fq),
				fmt.Sprintf("STR_TO_DATE(%s, %s)", sq, fq),
				fmt.Sprintf("DATE_FORMAT(STR_TO_DATE(%s, %s), %s)", sq, fq, fq))
		}
		row := runSelect(rt, s, exprs, rend == rColumn)

		for i, c := range cases {
			e1, e2, e3, e4 := row[4*i], row[4*i+1], row[4*i+2], row[4*i+3]
			desc := fmt.Sprintf("value %s (%s, %s) format %q canonical text %q", literal(d, k), k, rend, c.text, c.sref)
			eqParsed := func(v any) bool {
				if v == nil {
					return false
				}
				if c.ft.hasDate {
					m, ok := instantOf(v)
					return ok && m == c.want.micros()
				}
				m, ok := dayMicrosOf(v)
				return ok && m == c.want.dayMicros()
			}
			wantShow := c.want.String()
			if !c.ft.hasDate {
				wantShow = fmt.Sprintf("TIME %s.%06d", c.want.timeStr(), c.want.us)
			}
			if c.skip {
				continue
			}
			if c.formatSideOnly {
				st.Class("format:12h-format-side-only")
				if s1, ok := e1.(string); !ok || s1 != c.sref {
					rt.Fatalf("DATE_FORMAT(d,f) differs from the manual's text: %s\n  DATE_FORMAT(d,f) = %s", desc, showVal(e1))
				}
				continue
			}
			if c.parseSideOnly {
				st.Class("format:%y-parse-side-only")
				if !eqParsed(e3) {
					rt.Fatalf("STR_TO_DATE(s,f) differs from the value s denotes: %s\n  STR_TO_DATE(s,f) = %s\n  required         = %s", desc, showVal(e3), wantShow)
				}
				continue
			}
			// clause 1: STR_TO_DATE(DATE_FORMAT(d, f), f) = d (truncated to what f carries)
			if !eqParsed(e2) {
				if !knownRoundTrip(st, d, c.ft, e1, e2, c.want) {
					rt.Fatalf("STR_TO_DATE(DATE_FORMAT(d,f),f) != d: %s\n  DATE_FORMAT(d,f) = %s\n  parsed back     = %s\n  required        = %s",
						desc, showVal(e1), showVal(e2), wantShow)
				}
			}
			// clause 2: DATE_FORMAT(STR_TO_DATE(s, f), f) = s for the canonical text s
			if s4, ok := e4.(string); !ok || s4 != c.sref {
				if !knownRoundTrip(st, d, c.ft, e4, e3, c.want) {
					rt.Fatalf("DATE_FORMAT(STR_TO_DATE(s,f),f) != s: %s\n  STR_TO_DATE(s,f) = %s (reference value %s)\n  formatted back   = %s\n  DATE_FORMAT(d,f) = %s",
						desc, showVal(e3), wantShow, showVal(e4), showVal(e1))
				}
			}
			// format classes
			switch {
			case c.ft.hasDate && c.ft.hasTime:
				st.Class("format:datetime")
			case c.ft.hasDate:
				st.Class("format:date-only")
			default:
				st.Class("format:time-only")
			}
			if c.ft.uses12h {
				st.Class("format:12h")
			}
			if c.ft.usesYY {
				st.Class("format:%y")
			}
			if c.ft.usesJ {
				st.Class("format:%j")
			}
			if c.ft.usesNam {
				st.Class("format:month-name")
			}
			if c.ft.hasFrac {
				st.Class("format:%f")
			}
		}
		st.Class("rendering:" + rend.String())
		if valueClasses(st, d, k) {
			var fs []string
			for _, c := range cases {
				fs = append(fs, c.text)
			}
			st.NonTrivial(map[string]any{"value": literal(d, k), "kind": k.String(), "rendering": rend.String(), "formats": fs}, literal(d, k), k, rend, fs)
		}
	})
}

// knownRoundTrip evaluates the signature predicates of the round-trip findings on one
// failing (value, format) pair. formatted is the engine's DATE_FORMAT output involved,
// parsed the engine's STR_TO_DATE output involved.
func knownRoundTrip(st *stats.Collector, d fields, ft format, formatted, parsed any, want fields) bool {
	// C31-dateformat-yy-unpadded: the format has %y, the year's last two digits are < 10,
	// and the engine's text is exactly the manual's text with %y printed unpadded.
	if ft.usesYY && d.Y%100 < 10 {
		if s, ok := formatted.(string); ok && s == refFormat(d, ft, refOpts{yyUnpadded: true}) {
			// the parse side must still be right for the unpadded text
			if kf.Suppress(st, kfYY) {
				return true
			}
		}
	}
	// C31-strtodate-ampm-ignored: 12-hour format, the parsed value equals the required
	// value except that the hour is the 12-hour display number (AM/PM not applied).
	if ft.uses12h && parsed != nil {
		h12, _ := hour12(d.h)
		alt := want
		alt.h = h12
		if h12 != d.h {
			ok := false
			if ft.hasDate {
				m, is := instantOf(parsed)
				ok = is && m == alt.micros()
			} else {
				m, is := dayMicrosOf(parsed)
				ok = is && m == alt.dayMicros()
			}
			if ok && kf.Suppress(st, kfAmPm) {
				return true
			}
		}
	}
	return false
}

// ---------------------------------------------------------------------------------------
// Part 2: interval arithmetic, DATEDIFF, TIMESTAMPDIFF

const maxDurationMicros = int64(9223372036854775807 / 1000) // time.Duration range in µs
const maxDurationDays = int64(106751)                       // whole days in the time.Duration range

func TestC31Arith(t *testing.T) {
	st := stats.New("C31", "arith")
	defer st.Flush()
	nIntervals := 4
	rapid.Check(t, func(rt *rapid.T) {
		st.Eval()
		d, k := genValue(rt, "d")
		// second value for the differences: near d or independent
		var d2 fields
		var k2 kind
		switch rapid.IntRange(0, 3).Draw(rt, "d2class") {
		case 0:
			d2, k2 = genValue(rt, "d2")
		case 1: // same date, other clock
			d2, k2 = genValue(rt, "d2")
			d2.Y, d2.M, d2.D = d.Y, d.M, d.D
		case 2: // same day of month / clock neighbourhood in another month
			d2, k2 = genValue(rt, "d2")
			if d.D <= dim(d2.Y, d2.M) {
				d2.D = d.D
			}
			if k2 != kDate && k != kDate && rapid.Bool().Draw(rt, "sameclock") {
				d2.h, d2.mi, d2.s = d.h, d.mi, d.s
			}
		default: // a small offset from d
			k2 = kind(rapid.IntRange(0, 2).Draw(rt, "d2Kind"))
			u := rapid.SampledFrom(units[:6]).Draw(rt, "d2unit")
			r, _, ok := addInterval(d, u, int64(rapid.IntRange(-3, 3).Draw(rt, "d2n")))
			if !ok {
				r = d
			}
			d2 = r
			if k2 == kDate {
				d2.h, d2.mi, d2.s, d2.us = 0, 0, 0, 0
			} else if k2 == kDT0 {
				d2.us = 0
			}
		}
		if dd := refDateDiff(d, d2); (dd > maxDurationDays || dd < -maxDurationDays) && excluding(kfDatediffSat) {
			// region of the listed finding: dates further apart than time.Duration can hold
			st.Excluded(kfDatediffSat)
			y := d.Y + rapid.IntRange(-290, 290).Draw(rt, "d2Yredraw")
			if y < 1000 {
				y = 1000
			} else if y > 9999 {
				y = 9999
			}
			d2.Y = y
			if d2.D > dim(d2.Y, d2.M) {
				d2.D = dim(d2.Y, d2.M)
			}
		}
		rend := rendering(rapid.IntRange(0, 2).Draw(rt, "rendering"))
		f := fx.New(fx.Opts{})
		defer f.Close()
		s := f.NewSession("", "", "")
		if rend == rColumn {
			setup(rt, s, []fields{d, d2}, []kind{k, k2})
		}
		v1, v2 := valueSQL(d, k, rend, 0), valueSQL(d2, k2, rend, 1)

		durListed, opListed := excluding(kfDurOverflow), excluding(kfOpFraction)
		maxFixed := int64(0)
		if durListed {
			maxFixed = maxDurationMicros
		}
		type icase struct {
			iv      interval
			opForm  bool
			add     fields
			addOK   bool
			addCl   bool
			sub     fields
			subOK   bool
			base    int
			nExprs  int
			diffIdx int
		}
		var cases []icase
		var exprs []string
		for i := 0; i < nIntervals; i++ {
			iv := genInterval(rt, fmt.Sprintf("i%d", i), maxFixed, d.D >= 29)
			if durListed && iv.u.micros > 0 {
				st.Class("interval:bounded-by-" + kfDurOverflow)
			}
			c := icase{iv: iv, base: len(exprs)}
			c.opForm = rapid.IntRange(0, 3).Draw(rt, fmt.Sprintf("i%dop", i)) == 0
			if c.opForm && opListed && (d.us != 0 || iv.u.name == "MICROSECOND") {
				c.opForm = false
				st.Excluded(kfOpFraction)
			}
			c.add, c.addCl, c.addOK = addInterval(d, iv.u, iv.n)
			c.sub, _, c.subOK = addInterval(d, iv.u, -iv.n)
			is := iv.SQL()
			if c.opForm {
				exprs = append(exprs,
					fmt.Sprintf("%s + %s", v1, is),
					fmt.Sprintf("(%s + %s) - %s", v1, is, is),
					fmt.Sprintf("%s - %s", v1, is))
			} else {
				exprs = append(exprs,
					fmt.Sprintf("DATE_ADD(%s, %s)", v1, is),
					fmt.Sprintf("DATE_SUB(DATE_ADD(%s, %s), %s)", v1, is, is),
					fmt.Sprintf("DATE_SUB(%s, %s)", v1, is))
			}
			// consistency of the difference functions with interval addition
			exprs = append(exprs, fmt.Sprintf("TIMESTAMPDIFF(%s, %s, DATE_ADD(%s, %s))", iv.u.name, v1, v1, is))
			c.nExprs = 4
			cases = append(cases, c)
		}
		diffBase := len(exprs)
		exprs = append(exprs,
			fmt.Sprintf("DATEDIFF(%s, %s)", v1, v2),
			fmt.Sprintf("DATEDIFF(%s, %s)", v2, v1))
		var dunits []unit
		for j := 0; j < 3; j++ {
			u := rapid.SampledFrom(units).Draw(rt, fmt.Sprintf("du%d", j))
			if u.months > 0 && d.D == d2.D && d.mi != d2.mi && excluding(kfTsdiffMinutes) {
				// region of the listed finding: month-based unit, equal day of month, different minutes
				st.Excluded(kfTsdiffMinutes)
				u = rapid.SampledFrom(units[:6]).Draw(rt, fmt.Sprintf("du%dredraw", j))
			}
			dunits = append(dunits, u)
			exprs = append(exprs, fmt.Sprintf("TIMESTAMPDIFF(%s, %s, %s)", u.name, v1, v2))
		}
		row := runSelect(rt, s, exprs, rend == rColumn)
		desc := fmt.Sprintf("d = %s (%s), d2 = %s (%s), rendering %s", literal(d, k), k, literal(d2, k2), k2, rend)

		nontrivial := valueClasses(st, d, k)
		for _, c := range cases {
			a, back, sub, tdiff := row[c.base], row[c.base+1], row[c.base+2], row[c.base+3]
			form := "DATE_ADD/DATE_SUB"
			if c.opForm {
				form = "operator +/-"
			}
			st.Class("interval:" + c.iv.u.name)
			if c.iv.u.months > 0 {
				nontrivial = true
			}
			if c.iv.n < 0 {
				st.Class("interval:negative")
			} else if c.iv.n == 0 {
				st.Class("interval:zero")
			}
			chk := func(what string, got any, want fields) {
				m, ok := instantOf(got)
				if ok && m == want.micros() {
					return
				}
				if knownArith(st, d, c.iv, c.opForm, what, got, want) {
					return
				}
				rt.Fatalf("%s (%s): %s, %s\n  got      %s\n  required %s", what, form, desc, c.iv.SQL(), showVal(got), want)
			}
			if c.addOK {
				st.Class("add:in-range")
				chk("d + I", a, c.add)
				if c.addCl {
					st.Class("add:clamped")
					nontrivial = true
				} else {
					// statement: adding then subtracting the same interval restores the value when
					// no end-of-month clamping occurs
					chk("(d + I) - I", back, d)
					// and the difference functions must see exactly n units
					if n, ok := tdiff.(int64); !ok || n != c.iv.n {
						if !knownArith(st, d, c.iv, false, "tdiff", tdiff, c.add) {
							rt.Fatalf("TIMESTAMPDIFF(%s, d, DATE_ADD(d, I)) = %s, required %d: %s, %s", c.iv.u.name, showVal(tdiff), c.iv.n, desc, c.iv.SQL())
						}
					}
				}
			} else {
				st.Class("add:out-of-range")
			}
			if c.subOK {
				chk("d - I", sub, c.sub)
			}
		}
		// DATEDIFF / TIMESTAMPDIFF against the reference
		for j, pair := range [][2]fields{{d, d2}, {d2, d}} {
			want := refDateDiff(pair[0], pair[1])
			got, ok := row[diffBase+j].(int64)
			if ok && got == want {
				continue
			}
			// C31-datediff-saturates: the dates are more than 106751 days (the range of
			// time.Duration) apart and the engine returns exactly ±106752
			if ok && ((want > maxDurationDays && got == maxDurationDays+1) || (want < -maxDurationDays && got == -maxDurationDays-1)) && kf.Suppress(st, kfDatediffSat) {
				continue
			}
			rt.Fatalf("DATEDIFF(%s, %s) = %s, required %d: %s", pair[0].dateStr(), pair[1].dateStr(), showVal(row[diffBase+j]), want, desc)
		}
		if dd := refDateDiff(d, d2); dd > 366 || dd < -366 {
			st.Class("diff:over-a-year")
		}
		for j, u := range dunits {
			want, det := refTimestampDiff(u, d, d2)
			if !det {
				st.Class("tsdiff:month-end-ambiguous")
				continue
			}
			st.Class("tsdiff:" + u.name)
			if got, ok := row[diffBase+2+j].(int64); !ok || got != want {
				// C31-timestampdiff-month-ignores-minutes: month-based unit, equal day of month,
				// and the engine's value is what the day/clock comparison yields when the
				// minute fields are left out of it
				if ok && u.months > 0 && d.D == d2.D && d.mi != d2.mi && got == monthsDiffNoMinutes(u, d, d2) && kf.Suppress(st, kfTsdiffMinutes) {
					continue
				}
				rt.Fatalf("TIMESTAMPDIFF(%s, d, d2) = %s, required %d: %s", u.name, showVal(row[diffBase+2+j]), want, desc)
			}
		}
		if d.dateStr() == d2.dateStr() {
			st.Class("diff:same-date")
		}
		st.Class("rendering:" + rend.String())
		if nontrivial {
			var is []string
			for _, c := range cases {
				is = append(is, c.iv.SQL())
			}
			st.NonTrivial(map[string]any{"d": literal(d, k), "d2": literal(d2, k2), "rendering": rend.String(), "intervals": is}, literal(d, k), literal(d2, k2), rend, is)
		}
	})
}

// knownArith evaluates the signature predicates of the arithmetic findings.
func knownArith(st *stats.Collector, d fields, iv interval, opForm bool, what string, got any, want fields) bool {
	// C31-interval-duration-overflow: fixed-length unit below DAY, |n*unit| exceeds the
	// range of time.Duration (≈ 292.47 years), and the engine's result is the reference
	// result displaced by a multiple of 2^64 ns (int64 wrap of the duration).
	if iv.u.micros > 0 && iv.u.micros < 86400e6 {
		abs := iv.n
		if abs < 0 {
			abs = -abs
		}
		if abs > maxDurationMicros/iv.u.micros {
			if what == "tdiff" || what == "(d + I) - I" {
				// derived from the wrapped sum
				return kf.Suppress(st, kfDurOverflow)
			}
			if m, ok := instantOf(got); ok {
				tol := int64(1000) // sub-microsecond part of 2^64 ns
				if opForm && (d.us != 0 || iv.u.name == "MICROSECOND") && kf.Listed(kfOpFraction) {
					tol = 2e9 // combined with C31-interval-operator-drops-fraction
				}
				if wrappedBy2p64ns(m-want.micros(), tol) {
					return kf.Suppress(st, kfDurOverflow)
				}
			} else if got == nil {
				// the wrapped result may also leave the valid range and come back as NULL
				return kf.Suppress(st, kfDurOverflow)
			}
		}
	}
	// C31-interval-operator-drops-fraction: `d + INTERVAL …` / `d - INTERVAL …` is typed
	// DATETIME(0), so microseconds of the operand or of an intermediate result are rounded
	// away: the value is off by less than two seconds.
	if opForm && (d.us != 0 || iv.u.name == "MICROSECOND") {
		if m, ok := instantOf(got); ok {
			diff := m - want.micros()
			if diff < 0 {
				diff = -diff
			}
			if diff > 0 && diff < 2e6 {
				return kf.Suppress(st, kfOpFraction)
			}
		}
	}
	return false
}

// wrappedBy2p64ns reports whether a difference given in microseconds is a non-zero
// multiple of 2^64 ns up to tolNs nanoseconds (at least the sub-microsecond part that the
// engine value cannot show).
func wrappedBy2p64ns(diffMicros, tolNs int64) bool {
	ns := new(big.Int).Mul(big.NewInt(diffMicros), big.NewInt(1000))
	mod := new(big.Int).Lsh(big.NewInt(1), 64)
	half := new(big.Int).Rsh(mod, 1)
	k := new(big.Int).Add(ns, half)
	k.Div(k, mod) // floor((ns + 2^63) / 2^64) = nearest multiple
	if k.Sign() == 0 {
		return false
	}
	res := new(big.Int).Sub(ns, new(big.Int).Mul(k, mod))
	return res.CmpAbs(big.NewInt(tolNs)) < 0
}
