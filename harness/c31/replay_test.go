package c31

import (
	"testing"

	"github.com/dolthub/go-mysql-server/vh/internal/fx"
	"github.com/dolthub/go-mysql-server/vh/internal/stats"
)

// TestReplayC31 re-confirms the SQL witnesses of the C31 findings (/verif/replays/C31): a
// witness that deviates is a known hit while its finding is listed and a violation otherwise.
func TestReplayC31(t *testing.T) {
	st := stats.New("C31", "replay")
	defer st.Flush()
	fx.ReplayDir(t, st)
}
