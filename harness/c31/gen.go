package c31

import (
	"fmt"
	"strings"

	"pgregory.net/rapid"
)

// ---------------------------------------------------------------------------------------
// values

type kind int

const (
	kDate kind = iota // DATE
	kDT0              // DATETIME (no fractional seconds)
	kDT6              // DATETIME(6)
)

func (k kind) String() string { return [...]string{"date", "datetime", "datetime6"}[k] }

var biasYears = []int{1000, 1001, 1582, 1899, 1900, 1901, 1969, 1970, 1971, 1999, 2000, 2001, 2004, 2005, 2009, 2010, 2019, 2020, 2023, 2024, 2037, 2038, 2069, 2070, 2099, 2100, 2400, 9998, 9999}

func genYear(rt *rapid.T, label string) int {
	if rapid.IntRange(0, 2).Draw(rt, label+"Bias") == 0 {
		return rapid.IntRange(1000, 9999).Draw(rt, label)
	}
	return rapid.SampledFrom(biasYears).Draw(rt, label)
}

var leapYears = []int{1004, 1600, 1904, 1996, 2000, 2004, 2020, 2024, 2400, 9996}

// genDate draws a valid date biased to month ends, leap days and year boundaries.
func genDate(rt *rapid.T, label string) fields {
	if rapid.IntRange(0, 11).Draw(rt, label+"Leap") == 0 {
		// a leap day, or the last of February next to one
		y := rapid.SampledFrom(leapYears).Draw(rt, label+"LY")
		switch rapid.IntRange(0, 3).Draw(rt, label+"LD") {
		case 0:
			return fields{Y: y, M: 2, D: 28}
		case 1:
			return fields{Y: y + 1, M: 2, D: 28}
		}
		return fields{Y: y, M: 2, D: 29}
	}
	y := genYear(rt, label+"Y")
	var m int
	switch rapid.IntRange(0, 3).Draw(rt, label+"MBias") {
	case 0:
		m = rapid.SampledFrom([]int{1, 2, 2, 3, 12}).Draw(rt, label+"M")
	default:
		m = rapid.IntRange(1, 12).Draw(rt, label+"M")
	}
	var d int
	switch rapid.IntRange(0, 4).Draw(rt, label+"DBias") {
	case 0, 1:
		d = rapid.SampledFrom([]int{1, 28, 29, 30, 31, 31}).Draw(rt, label+"D")
	default:
		d = rapid.IntRange(1, 31).Draw(rt, label+"D")
	}
	if d > dim(y, m) {
		d = dim(y, m)
	}
	return fields{Y: y, M: m, D: d}
}

var biasClocks = [][3]int{{0, 0, 0}, {23, 59, 59}, {12, 0, 0}, {11, 59, 59}, {12, 59, 59}, {0, 59, 59}, {13, 0, 0}, {1, 0, 0}, {0, 0, 1}}
var biasMicros = []int{0, 1, 999999, 500000, 499999, 100000, 123, 120000, 999}

// genValue draws a date / datetime value of a random kind.
func genValue(rt *rapid.T, label string) (fields, kind) {
	f := genDate(rt, label)
	k := kind(rapid.IntRange(0, 2).Draw(rt, label+"Kind"))
	if k == kDate {
		return f, k
	}
	if rapid.IntRange(0, 1).Draw(rt, label+"CBias") == 0 {
		c := rapid.SampledFrom(biasClocks).Draw(rt, label+"Clock")
		f.h, f.mi, f.s = c[0], c[1], c[2]
	} else {
		f.h = rapid.IntRange(0, 23).Draw(rt, label+"h")
		f.mi = rapid.IntRange(0, 59).Draw(rt, label+"mi")
		f.s = rapid.IntRange(0, 59).Draw(rt, label+"s")
	}
	if k == kDT6 {
		if rapid.IntRange(0, 1).Draw(rt, label+"UBias") == 0 {
			f.us = rapid.SampledFrom(biasMicros).Draw(rt, label+"us")
		} else {
			f.us = rapid.IntRange(0, 999999).Draw(rt, label+"us")
		}
	}
	return f, k
}

// literal is the canonical MySQL text of a value of the given kind.
func literal(f fields, k kind) string {
	switch k {
	case kDate:
		return f.dateStr()
	case kDT0:
		return f.dateStr() + " " + f.timeStr()
	}
	return fmt.Sprintf("%s %s.%06d", f.dateStr(), f.timeStr(), f.us)
}

// rendering of a value inside SQL
type rendering int

const (
	rString rendering = iota // plain string literal, converted implicitly by the function
	rCast                    // CAST('…' AS DATE|DATETIME|DATETIME(6))
	rColumn                  // column of a one-row table (typed, stored value)
)

func (r rendering) String() string { return [...]string{"string", "cast", "column"}[r] }

func castType(k kind) string { return [...]string{"DATE", "DATETIME", "DATETIME(6)"}[k] }

// valueSQL renders value number idx (column names v0, v1, …).
func valueSQL(f fields, k kind, r rendering, idx int) string {
	switch r {
	case rString:
		return sqlQuote(literal(f, k))
	case rCast:
		return "CAST(" + sqlQuote(literal(f, k)) + " AS " + castType(k) + ")"
	}
	return fmt.Sprintf("v%d", idx)
}

// ---------------------------------------------------------------------------------------
// formats

var seps = []string{"-", "/", ".", ",", " ", ":", "_", "%%", " - ", "|"}

func genSep(rt *rapid.T, label string) tok {
	s := rapid.SampledFrom(seps).Draw(rt, label)
	if s == "%%" {
		return tok{spec: '%'}
	}
	return tok{lit: s}
}

// fmtOpts restricts the specifiers genFormat may use.
type fmtOpts struct {
	withDate, withTime bool
	allowYY            bool   // %y (year within 1970…2069)
	allowNames         bool   // %b %M (month valid)
	allow12            bool   // %h %I %l %r with %p
	only12             bool   // time part must use a 12-hour specifier
	allowJ, forceJ     bool   // %Y %j instead of month and day
	monthSpecs         []byte // override of the numeric month specifiers
	daySpecs           []byte // override of the day specifiers
	noCombined         bool   // no %T / %r
}

// genFormat draws a *complete* format: the specifiers determine year, month and day (when
// withDate) and hour, minute and second (when withTime) uniquely; components are separated
// by non-alphanumeric literals.
func genFormat(rt *rapid.T, label string, o fmtOpts) format {
	var ft format
	var comps [][]tok
	if o.withDate {
		ft.hasDate = true
		ys := byte('Y')
		if o.allowYY && rapid.IntRange(0, 2).Draw(rt, label+"yy") == 0 {
			ys = 'y'
			ft.usesYY = true
		}
		if o.forceJ || (o.allowJ && rapid.IntRange(0, 5).Draw(rt, label+"j") == 0) {
			ft.usesJ = true
			comps = append(comps, []tok{{spec: ys}}, []tok{{spec: 'j'}})
		} else {
			ms := []byte{'m', 'c'}
			if o.monthSpecs != nil {
				ms = append([]byte{}, o.monthSpecs...)
			}
			if o.allowNames {
				ms = append(ms, 'b', 'M')
			}
			m := rapid.SampledFrom(ms).Draw(rt, label+"m")
			if m == 'b' || m == 'M' {
				ft.usesNam = true
			}
			ds := []byte{'d', 'e', 'D'}
			if o.daySpecs != nil {
				ds = o.daySpecs
			}
			d := rapid.SampledFrom(ds).Draw(rt, label+"d")
			comps = append(comps, []tok{{spec: ys}}, []tok{{spec: m}}, []tok{{spec: d}})
		}
		comps = permute(rt, label+"dperm", comps)
	}
	var tcomps [][]tok
	if o.withTime {
		ft.hasTime = true
		style := rapid.IntRange(0, 5).Draw(rt, label+"tstyle")
		switch {
		case style == 0 && !o.only12 && !o.noCombined:
			tcomps = append(tcomps, []tok{{spec: 'T'}})
		case style == 1 && o.allow12 && !o.noCombined:
			ft.uses12h = true
			tcomps = append(tcomps, []tok{{spec: 'r'}})
		default:
			hs := []byte{'H', 'k'}
			if o.allow12 {
				hs = append(hs, 'h', 'I', 'l')
			}
			if o.only12 {
				hs = []byte{'h', 'I', 'l'}
			}
			h := rapid.SampledFrom(hs).Draw(rt, label+"h")
			s := rapid.SampledFrom([]byte{'s', 'S'}).Draw(rt, label+"s")
			tcomps = append(tcomps, []tok{{spec: h}}, []tok{{spec: 'i'}}, []tok{{spec: s}})
			if h == 'h' || h == 'I' || h == 'l' {
				ft.uses12h = true
				tcomps = append(tcomps, []tok{{spec: 'p'}})
			}
			if rapid.IntRange(0, 3).Draw(rt, label+"tpermq") == 0 {
				tcomps = permute(rt, label+"tperm", tcomps)
			}
		}
		if rapid.IntRange(0, 1).Draw(rt, label+"frac") == 0 {
			ft.hasFrac = true
			tcomps = append(tcomps, []tok{{spec: 'f'}})
		}
	}
	// time before date occasionally
	all := append(comps, tcomps...)
	if o.withDate && o.withTime && rapid.IntRange(0, 7).Draw(rt, label+"tfirst") == 0 {
		all = append(append([][]tok{}, tcomps...), comps...)
	}
	for i, c := range all {
		if i > 0 {
			ft.toks = append(ft.toks, genSep(rt, fmt.Sprintf("%ssep%d", label, i)))
		}
		ft.toks = append(ft.toks, c...)
	}
	return ft
}

func permute(rt *rapid.T, label string, in [][]tok) [][]tok {
	out := append([][]tok{}, in...)
	for i := len(out) - 1; i > 0; i-- {
		j := rapid.IntRange(0, i).Draw(rt, fmt.Sprintf("%s%d", label, i))
		out[i], out[j] = out[j], out[i]
	}
	return out
}

// ---------------------------------------------------------------------------------------
// intervals

type interval struct {
	u unit
	n int64
}

func (i interval) SQL() string { return fmt.Sprintf("INTERVAL %d %s", i.n, i.u.name) }

// span of the supported range in each unit (≈ 9000 years), used as the magnitude bound
var unitSpan = map[string]int64{
	"MICROSECOND": 9000 * 366 * 86400e6,
	"SECOND":      9000 * 366 * 86400,
	"MINUTE":      9000 * 366 * 1440,
	"HOUR":        9000 * 366 * 24,
	"DAY":         9000 * 366,
	"WEEK":        9000 * 53,
	"MONTH":       9000 * 12,
	"QUARTER":     9000 * 4,
	"YEAR":        9000,
}

// genInterval draws an interval. monthBias (the value lies on day 29…31) turns a third of the
// draws into a small month-based interval, so that end-of-month clamping is reached often.
func genInterval(rt *rapid.T, label string, maxFixedMicros int64, monthBias bool) interval {
	if monthBias && rapid.IntRange(0, 2).Draw(rt, label+"clampBias") == 0 {
		u := rapid.SampledFrom(units[6:]).Draw(rt, label+"unit")
		return interval{u, int64(rapid.IntRange(-14, 14).Draw(rt, label+"n"))}
	}
	u := rapid.SampledFrom(units).Draw(rt, label+"unit")
	var n int64
	switch rapid.IntRange(0, 6).Draw(rt, label+"nclass") {
	case 0:
		n = rapid.SampledFrom([]int64{0, 1, -1, 2, -2, 12, -12, 24, 60, 365, 366, -365, 1000, 1000000, -1000000, 86400, 3600}).Draw(rt, label+"n")
	case 1, 2, 3:
		n = int64(rapid.IntRange(-40, 40).Draw(rt, label+"n"))
	default:
		// log-uniform magnitude up to the span of the supported range
		span := unitSpan[u.name]
		bits := 0
		for s := span; s > 0; s >>= 1 {
			bits++
		}
		b := rapid.IntRange(1, bits).Draw(rt, label+"bits")
		hi := int64(1)<<uint(b) - 1
		if hi > span {
			hi = span
		}
		n = rapid.Int64Range(hi/2, hi).Draw(rt, label+"n")
		if rapid.Bool().Draw(rt, label+"neg") {
			n = -n
		}
	}
	if u.micros > 0 && maxFixedMicros > 0 {
		// region excluded because of a listed finding: keep |n*unit| below the bound
		lim := maxFixedMicros / u.micros
		if n > lim {
			n = n % (lim + 1)
		} else if n < -lim {
			n = -((-n) % (lim + 1))
		}
	}
	return interval{u, n}
}

func joinSQL(parts []string) string { return strings.Join(parts, ", ") }
