package c31

import (
	"fmt"
	"testing"
	"time"

	"github.com/dolthub/go-mysql-server/vh/internal/fx"
	"github.com/dolthub/go-mysql-server/vh/internal/kf"
	"github.com/dolthub/go-mysql-server/vh/internal/stats"
	"pgregory.net/rapid"
)

// ---------------------------------------------------------------------------------------
// Part 3: invalid dates are rejected or flagged, never silently shifted

type breakage int

const (
	bDayOverMonth breakage = iota // day in dim+1 … 31 (Feb 29 of a non-leap year, Feb 30, Apr 31 …)
	bDayOver31                    // 32 … 99
	bDayZero
	bMonthZero
	bMonthOver12 // 13 … 99
	bHourOver23  // 24 … 99 with a 24-hour specifier
	bHour12Range // 24 … 99 with a 12-hour specifier (13 … 23 and 0 are not generated: the engine returns
	// the hour as written, which is no shift; whether that is "invalid" is not pinned by the statement)
	bMinuteOver59
	bSecondOver59
	bDayOfYear // %j: 0, 366 in a non-leap year, 367 … 999
	nBreakages
)

var breakageNames = [...]string{"day>month-length", "day>31", "day=0", "month=0", "month>12", "hour>23", "hour12-out-of-range", "minute>59", "second>59", "day-of-year"}

func (b breakage) String() string { return breakageNames[b] }

func (b breakage) inTime() bool {
	return b == bHourOver23 || b == bHour12Range || b == bMinuteOver59 || b == bSecondOver59
}

// silent reports the violation: the statement succeeded, produced a non-NULL value and
// raised no warning at all. The value is then necessarily a different, valid date: the
// written fields do not denote one. For a zero month or day (which MySQL can keep as a
// "zero-in-date" when sql_mode lacks NO_ZERO_IN_DATE) only a time.Time counts — it cannot
// hold a zero field, so it is a shifted date; any other representation is left alone.
func silent(r *fx.Result, v any, b breakage) bool {
	if !r.OK() || v == nil || len(r.Warnings) != 0 {
		return false
	}
	if b == bDayZero || b == bMonthZero {
		_, isTime := v.(time.Time)
		return isTime
	}
	return true
}

func TestC31Invalid(t *testing.T) {
	st := stats.New("C31", "invalid")
	defer st.Flush()
	rapid.Check(t, func(rt *rapid.T) {
		st.Eval()
		base := genDate(rt, "base")
		base.h = rapid.IntRange(0, 23).Draw(rt, "h")
		base.mi = rapid.IntRange(0, 59).Draw(rt, "mi")
		base.s = rapid.IntRange(0, 59).Draw(rt, "s")
		b := breakage(rapid.IntRange(0, int(nBreakages)-1).Draw(rt, "breakage"))
		bad := base
		h12, pm := hour12(base.h)
		isPM := pm == "PM"
		switch b {
		case bDayOverMonth:
			if dim(bad.Y, bad.M) == 31 {
				bad.M = rapid.SampledFrom([]int{2, 2, 4, 6, 9, 11}).Draw(rt, "shortMonth")
			}
			bad.D = rapid.IntRange(dim(bad.Y, bad.M)+1, 31).Draw(rt, "badDay")
		case bDayOver31:
			bad.D = rapid.IntRange(32, 99).Draw(rt, "badDay")
		case bDayZero:
			bad.D = 0
		case bMonthZero:
			bad.M = 0
		case bMonthOver12:
			bad.M = rapid.IntRange(13, 99).Draw(rt, "badMonth")
		case bHourOver23:
			bad.h = rapid.IntRange(24, 99).Draw(rt, "badHour")
		case bHour12Range:
			h12 = rapid.IntRange(24, 99).Draw(rt, "badH12")
			isPM = rapid.Bool().Draw(rt, "pm")
		case bMinuteOver59:
			bad.mi = rapid.IntRange(60, 99).Draw(rt, "badMinute")
		case bSecondOver59:
			bad.s = rapid.IntRange(60, 99).Draw(rt, "badSecond")
		case bDayOfYear:
			bad.forceDoy = true
			switch rapid.IntRange(0, 3).Draw(rt, "doyClass") {
			case 0:
				bad.doy = 0
			case 1:
				if leap(bad.Y) {
					bad.Y++ // a non-leap year (no year ≡ 3 mod 4 follows a leap year into a leap year)
				}
				bad.doy = 366
			default:
				bad.doy = rapid.IntRange(367, 999).Draw(rt, "badDoy")
			}
		}
		st.Class("breakage:" + b.String())

		f := fx.New(fx.Opts{})
		defer f.Close()
		s := f.NewSession("", "", "")
		desc := fmt.Sprintf("breakage %s", b)

		// ---- STR_TO_DATE with a complete format -------------------------------------------
		shiftExcl := excluding(kfStrToDateShift)
		for i := 0; i < 2; i++ {
			o := fmtOpts{withDate: true, withTime: b.inTime() || rapid.Bool().Draw(rt, fmt.Sprintf("sf%dtime", i)),
				allowYY: bad.Y >= 1970 && bad.Y <= 2069, allowNames: bad.M >= 1 && bad.M <= 12,
				allow12: b == bHour12Range || !b.inTime() || b != bHourOver23, only12: b == bHour12Range,
				forceJ: b == bDayOfYear}
			if b == bHourOver23 {
				o.allow12 = false
			}
			if shiftExcl {
				// Region of the listed finding: every out-of-range field read through a specifier
				// whose parser does not range-check it. What remains checked by the parser:
				// month through %m, day outside 1…31 through %d.
				switch b {
				case bMonthZero, bMonthOver12:
					o.monthSpecs = []byte{'m'}
				case bDayOver31, bDayZero:
					o.daySpecs = []byte{'d'}
				default:
					st.Excluded(kfStrToDateShift)
					continue
				}
			}
			ft := genFormat(rt, fmt.Sprintf("sf%d", i), o)
			text := rawFormat(bad, ft, h12, isPM)
			q := fmt.Sprintf("SELECT STR_TO_DATE(%s, %s)", sqlQuote(text), sqlQuote(ft.String()))
			r := s.Exec(q)
			if r.Panic != nil {
				rt.Fatalf("panic: %v\n%s\nSQL: %s", r.Panic, r.Stack, q)
			}
			st.Class("entry:STR_TO_DATE")
			if r.OK() && len(r.Rows) == 1 && silent(r, r.Rows[0][0], b) {
				if !knownShift(st, bad, ft, b, h12, r.Rows[0][0]) {
					rt.Fatalf("invalid input silently turned into a value: %s\n  %s\n  => %s, no warning", desc, q, showVal(r.Rows[0][0]))
				}
			}
			classifyOutcome(st, r)
		}

		// ---- conversions of the standard literal ------------------------------------------
		if b != bDayOfYear && b != bHour12Range {
			dateLit := bad.dateStr()
			dtLit := bad.dateStr() + " " + bad.timeStr()
			var qs []string
			if !b.inTime() {
				qs = append(qs,
					fmt.Sprintf("SELECT CAST(%s AS DATE)", sqlQuote(dateLit)),
					fmt.Sprintf("SELECT DATE(%s)", sqlQuote(dateLit)))
			}
			qs = append(qs,
				fmt.Sprintf("SELECT CAST(%s AS DATETIME)", sqlQuote(dtLit)),
				fmt.Sprintf("SELECT TIMESTAMP(%s)", sqlQuote(dtLit)))
			pick := rapid.IntRange(0, len(qs)-1).Draw(rt, "conv")
			for i, q := range qs {
				if i != pick && !thorough() {
					continue
				}
				r := s.Exec(q)
				if r.Panic != nil {
					rt.Fatalf("panic: %v\n%s\nSQL: %s", r.Panic, r.Stack, q)
				}
				st.Class("entry:" + q[7:11])
				if r.OK() && len(r.Rows) == 1 && silent(r, r.Rows[0][0], b) {
					rt.Fatalf("invalid input silently turned into a value: %s\n  %s\n  => %s, no warning", desc, q, showVal(r.Rows[0][0]))
				}
				classifyOutcome(st, r)
			}
			// ---- strict INSERT (sql_mode contains STRICT_TRANS_TABLES by default) -------------
			col, lit := "b", dtLit
			if !b.inTime() && rapid.Bool().Draw(rt, "insertDate") {
				col, lit = "a", dateLit
			}
			s.MustExec(rt.Fatalf, "CREATE TABLE t (id INT PRIMARY KEY, a DATE, b DATETIME(6))")
			q := fmt.Sprintf("INSERT INTO t (id, %s) VALUES (1, %s)", col, sqlQuote(lit))
			r := s.Exec(q)
			if r.Panic != nil {
				rt.Fatalf("panic: %v\n%s\nSQL: %s", r.Panic, r.Stack, q)
			}
			st.Class("entry:INSERT")
			if r.OK() && len(r.Warnings) == 0 {
				sel := s.Exec("SELECT " + col + " FROM t WHERE id = 1")
				if sel.OK() && len(sel.Rows) == 1 && silent(sel, sel.Rows[0][0], b) {
					rt.Fatalf("strict INSERT of an invalid value succeeded without warning: %s\n  %s\n  stored %s", desc, q, showVal(sel.Rows[0][0]))
				}
			}
			classifyOutcome(st, r)
		}
		st.NonTrivial(map[string]any{"breakage": b.String(), "fields": bad.String()}, b, bad.String(), h12, isPM)
	})
}

func classifyOutcome(st *stats.Collector, r *fx.Result) {
	switch {
	case !r.OK():
		st.Class("outcome:error")
	case len(r.Warnings) > 0:
		st.Class("outcome:warning")
	default:
		st.Class("outcome:NULL")
	}
}

// knownShift is the signature of C31-strtodate-silent-shift: STR_TO_DATE returned, without
// a warning, exactly the value that Go's time.Date produces from the raw (out-of-range)
// field numbers — i.e. the overflow was carried into the next month / day / hour / minute.
func knownShift(st *stats.Collector, bad fields, ft format, b breakage, h12 int, got any) bool {
	// The parser range-checks %m (1…12) and %d (1…31); a shift through one of them is not this
	// finding (it is what remains generated while the finding is listed).
	switch b {
	case bMonthZero, bMonthOver12:
		if ft.has('m') {
			return false
		}
	case bDayOver31, bDayZero:
		if ft.has('d') {
			return false
		}
	}
	h := bad.h
	if ft.uses12h {
		h = h12 // the hour number as written (AM/PM is not applied either: C31-strtodate-ampm-ignored)
	}
	var want time.Time
	us := 0
	if ft.hasFrac {
		us = bad.us
	}
	hh, mi, ss := 0, 0, 0
	if ft.hasTime {
		hh, mi, ss = h, bad.mi, bad.s
	}
	if ft.usesJ {
		// month and day are taken from January 0 + doy days, the year stays as written
		off := time.Date(bad.Y, time.January, bad.doy, 0, 0, 0, 0, time.UTC)
		want = time.Date(bad.Y, off.Month(), off.Day(), hh, mi, ss, us*1000, time.UTC)
	} else {
		want = time.Date(bad.Y, time.Month(bad.M), bad.D, hh, mi, ss, us*1000, time.UTC)
	}
	gt, ok := got.(time.Time)
	if !ok || !gt.UTC().Equal(want) {
		return false
	}
	return kf.Suppress(st, kfStrToDateShift)
}
