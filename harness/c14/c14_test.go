// Package c14 checks property C14: primary and unique keys are enforced exactly.
//
// Same machinery as C13 (internal/tmodel: generated DML histories against a reference
// interpreter), with value domains chosen to stress key *equality*: composite keys whose
// printed parts concatenate alike, strings that differ only in case / accent / trailing
// space on key columns with binary and case-insensitive collations, prefix unique keys with
// multi-byte characters, NULLs in unique keys, DECIMAL keys written with different scales,
// -0; plus ALTER TABLE ADD UNIQUE on existing data. Which strings a collation equates is
// decided by the engine's own `=` (tmodel.EngineEq), as the statement's "compared under the
// columns' collations" leaves it to the collation (C29's subject).
//
// Asserted after every statement:
//  1. invariant: no two stored rows are equal on the primary key or (non-NULL) on a unique key;
//  2. the statement failed with a duplicate-key error / skipped / replaced / updated a row iff
//     the model finds a key-equal row at that point of the statement, and succeeded otherwise
//     (the table contents are compared with the model to that end; affected-row counts are not).
package c14

import (
	"os"
	"strings"
	"testing"

	"github.com/dolthub/go-mysql-server/vh/internal/fx"
	"github.com/dolthub/go-mysql-server/vh/internal/kf"
	"github.com/dolthub/go-mysql-server/vh/internal/stats"
	"github.com/dolthub/go-mysql-server/vh/internal/tmodel"
	"pgregory.net/rapid"
)

// Finding ids of this property (see notes/C14.md).
const (
	idRowKey      = "C14-rowkey-concat" // false duplicate: composite PK parts concatenated without separator
	idCIKey       = "C14-ci-key"        // missed duplicate: key columns with a case-insensitive collation compared byte-wise
	idPrefixBytes = "C14-prefix-bytes"  // false duplicate: prefix length of a unique key applied in bytes
	// ALTER TABLE ADD UNIQUE: the duplicate pre-check of the new index compares the key values under the types of the
	// table's *leading* columns (false duplicates) and ignores prefix lengths (a prefix duplicate is found only
	// while the index is built, and that late failure can leave the unique index behind over the violating rows)
	idAddUnique     = "C14-add-unique-precheck"
	idDeletedUnique = "C14-deleted-unique" // missed duplicate: unique check gives up when a same-valued row was deleted earlier in the statement
)

var known = map[string]string{
	tmodel.FlagRowKeyConcat:  idRowKey,
	tmodel.FlagCIKey:         idCIKey,
	tmodel.FlagPrefixBytes:   idPrefixBytes,
	tmodel.FlagDeletedUnique: idDeletedUnique,
	tmodel.FlagAddUniqueLeft: idAddUnique,
	tmodel.FlagAddUniqueType: idAddUnique,
}

func profile() tmodel.Profile {
	p := tmodel.Profile{
		Ints:       []int64{-3, -2, -1, 0, 1, 2, 3, 4},
		Strs:       []string{"", "a", "A", "á", "é", "ab", "aB", "Ab", "abc", "a ", "b", "B", "áx", "éx", "ax"},
		Decs:       []int64{-150, -25, 0, 25, 50, 100, 150, 175, 200},
		Colls:      []string{"", "", "utf8mb4_general_ci", "utf8mb4_0900_ai_ci", "utf8mb4_bin"},
		DecKeys:    true,
		PrefixKeys: true,
		AltLits:    true,
		AlterKeys:  true,
		TwoTables:  true,
		MaxRows:    16,
		// INSERT .. SELECT .. ON DUPLICATE KEY UPDATE c = VALUES(c) is rejected by the planner
		// (reported under C13); nothing C14 states depends on it
		NoValuesInSelect: true,
	}
	if !kf.Listed(idRowKey) {
		// values whose printed forms concatenate alike: (1,23)/(12,3), ("a","bc")/("ab","c"), (1,"0")/(10,"")
		p.Ints = append(p.Ints, 10, 12, 23)
		p.Strs = append(p.Strs, "bc", "c", "0", "3")
	}
	return p
}

func TestC14(t *testing.T) {
	st := stats.New("C14", "")
	defer st.Flush()
	prof := profile()
	cfg := &tmodel.Config{
		Profile:      prof,
		Env:          &tmodel.Env{MaxPaths: 400, StrEq: tmodel.NewEngineEq(prof.Strs).Eq, LaxCIChange: true},
		Known:        known,
		KeyInvariant: true,
		NoCounts:     true,
		// C13's finding about keyless tables with case-insensitive columns makes edits hit the
		// wrong row; nothing C14 states depends on it
		// likewise C13's finding about rows updated through ON DUPLICATE KEY UPDATE on keyless tables
		// (stored rows overwrite each other later on)
		SkipFlags: map[string]bool{tmodel.FlagKeylessCI: true, tmodel.FlagOdkuKeyless: true},
	}
	if kf.Listed(idRowKey) {
		st.Excluded(idRowKey + ":colliding-domain")
	}
	rapid.Check(t, func(rt *rapid.T) {
		st.Eval()
		db := tmodel.GenSchema(rt, &cfg.Profile)
		r := tmodel.NewRunner(rt, st, cfg, db)
		defer r.Close()
		rt.Repeat(r.Actions())
		h := &r.H
		if h.Collisions > 0 && h.NearAccepted > 0 {
			var sample any
			if len(h.SQL) <= 12 {
				sample = h.SQL
			}
			st.NonTrivial(sample, strings.Join(h.SQL, ";"))
		}
		for _, tb := range db {
			for _, k := range tb.Keys {
				if !k.Primary && !k.Unique {
					continue
				}
				label := "key:unique"
				if k.Primary {
					label = "key:primary"
				}
				if len(k.Cols) > 1 {
					label += "-composite"
				}
				if len(k.Prefix) > 0 {
					label += "-prefix"
				}
				st.Class(label)
				for _, c := range k.Cols {
					if tb.Cols[c].K == tmodel.KStr && tb.Cols[c].Coll != "" {
						st.Class("keycol:" + tb.Cols[c].Coll)
					}
				}
			}
		}
	})
}

// TestC14Witness re-confirms the minimal witnesses of the findings of this property. A
// witness that still reproduces must be listed as known.
func TestC14Witness(t *testing.T) {
	st := stats.New("C14", "witness")
	defer st.Flush()
	type step struct {
		sql    string
		expect string     // "ok", "dup"
		rows   [][]string // expected contents of t afterwards (nil: not checked)
	}
	cases := []struct {
		id    string
		what  string
		steps []step
	}{
		{idRowKey, "false duplicate on a composite primary key: (1,23) and (12,3)", []step{
			{"CREATE TABLE t (a INT, b INT, c INT, PRIMARY KEY (a, b))", "ok", nil},
			{"INSERT INTO t VALUES (1, 23, 0), (12, 3, 0)", "ok", [][]string{{"n:1", "n:23", "n:0"}, {"n:12", "n:3", "n:0"}}},
		}},
		{idRowKey, "false duplicate on a composite primary key: ('a','bc') and ('ab','c')", []step{
			{"CREATE TABLE t (a VARCHAR(8), b VARCHAR(8), PRIMARY KEY (a, b))", "ok", nil},
			{"INSERT INTO t VALUES ('a', 'bc'), ('ab', 'c')", "ok", [][]string{{"s:a", "s:bc"}, {"s:ab", "s:c"}}},
		}},
		{idCIKey, "primary key on a case-insensitive column accepts 'a' and 'A'", []step{
			{"CREATE TABLE t (s VARCHAR(8) COLLATE utf8mb4_0900_ai_ci PRIMARY KEY)", "ok", nil},
			{"INSERT INTO t VALUES ('a')", "ok", nil},
			{"INSERT INTO t VALUES ('A')", "dup", [][]string{{"s:a"}}},
		}},
		{idCIKey, "unique key on a case-insensitive column accepts 'a' and 'A'", []step{
			{"CREATE TABLE t (pk INT PRIMARY KEY, s VARCHAR(8) COLLATE utf8mb4_general_ci, UNIQUE KEY u1 (s))", "ok", nil},
			{"INSERT INTO t VALUES (1, 'a')", "ok", nil},
			{"INSERT INTO t VALUES (2, 'A')", "dup", [][]string{{"n:1", "s:a"}}},
		}},
		{idPrefixBytes, "false duplicate on UNIQUE (s(1)): 'áx' and 'éx' share the first byte, not the first character", []step{
			{"CREATE TABLE t (pk INT PRIMARY KEY, s VARCHAR(8), UNIQUE KEY u1 (s(1)))", "ok", nil},
			{"INSERT INTO t VALUES (1, 'áx')", "ok", nil},
			{"INSERT INTO t VALUES (2, 'éx')", "ok", [][]string{{"n:1", "s:áx"}, {"n:2", "s:éx"}}},
		}},
		{idAddUnique, "a failed ALTER TABLE ADD UNIQUE (s(1)) leaves the unique index behind, over rows that violate it", []step{
			{"CREATE TABLE t (pk INT PRIMARY KEY, s VARCHAR(8))", "ok", nil},
			{"INSERT INTO t VALUES (1, 'ab'), (2, 'ac')", "ok", nil},
			{"ALTER TABLE t ADD UNIQUE KEY x7 (pk)", "ok", nil},
			{"ALTER TABLE t DROP INDEX x7", "ok", nil},
			{"ALTER TABLE t ADD UNIQUE KEY x9 (s(1))", "dup", nil},
			{"INSERT INTO t VALUES (3, 'ad')", "ok", [][]string{{"n:1", "s:ab"}, {"n:2", "s:ac"}, {"n:3", "s:ad"}}},
		}},
		{idAddUnique, "ALTER TABLE ADD UNIQUE on a binary column reports 'a'/'A' as duplicates because the table's first column is case-insensitive", []step{
			{"CREATE TABLE t (c0 VARCHAR(8) COLLATE utf8mb4_general_ci, c1 VARCHAR(8))", "ok", nil},
			{"INSERT INTO t VALUES ('x', 'a'), ('y', 'A')", "ok", nil},
			{"ALTER TABLE t ADD UNIQUE KEY x1 (c1)", "ok", nil},
			{"INSERT INTO t VALUES ('z', 'a')", "dup", [][]string{{"s:x", "s:a"}, {"s:y", "s:A"}}},
		}},
		{idDeletedUnique, "REPLACE leaves two rows with the same unique value", []step{
			{"CREATE TABLE t (pk INT PRIMARY KEY, u INT, UNIQUE KEY u1 (u))", "ok", nil},
			{"INSERT INTO t VALUES (1, 10)", "ok", nil},
			{"REPLACE INTO t VALUES (1, 50), (4, 10), (5, 10)", "ok", [][]string{{"n:1", "n:50"}, {"n:5", "n:10"}}},
		}},
		{idDeletedUnique, "multi-row UPDATE gives two rows the same unique value", []step{
			{"CREATE TABLE t (pk INT PRIMARY KEY, u INT, c INT, UNIQUE KEY u1 (u))", "ok", nil},
			{"INSERT INTO t VALUES (1, 10, 0), (2, 20, 0)", "ok", nil},
			{"UPDATE t SET u = 10, c = c + 1 ORDER BY pk", "dup", [][]string{{"n:1", "n:10", "n:0"}, {"n:2", "n:20", "n:0"}}},
		}},
	}
	for _, c := range cases {
		st.Eval()
		f := fx.New(fx.Opts{})
		s := f.NewSession("", "", "")
		bad := ""
		for _, sp := range c.steps {
			r := s.Exec(sp.sql)
			if r.Panic != nil || r.TimedOut {
				t.Fatalf("%s: %s crashed: %s\n%s", c.id, sp.sql, r, r.Stack)
			}
			switch {
			case sp.expect == "dup" && !tmodel.IsDup(r.Err):
				bad = sp.sql + ": expected a duplicate-key error, got " + r.String()
			case sp.expect == "ok" && r.Err != nil:
				bad = sp.sql + ": unexpected error " + r.Err.Error()
			}
			if sp.rows != nil {
				sel := s.Exec("SELECT * FROM t")
				got := fx.NormRows(sel.Schema, sel.Rows)
				if !fx.MultisetEqual(got, sp.rows) && bad == "" {
					bad = sp.sql + ": table holds " + fx.Show(got) + ", expected " + fx.Show(sp.rows)
				}
			}
			if bad != "" {
				break
			}
		}
		f.Close()
		if bad == "" {
			st.Class("witness-no-longer-reproduces:" + c.id)
			if kf.Listed(c.id) {
				t.Logf("STALE: finding %s is listed as known but its witness (%s) satisfies the property now", c.id, c.what)
			}
			continue
		}
		st.NonTrivial(map[string]string{"finding": c.id, "observed": bad}, c.id, c.what)
		if !kf.Suppress(st, c.id) {
			t.Errorf("finding %s (%s) reproduces and is not listed as known:\n  %s", c.id, c.what, bad)
		}
	}
}

func TestReplayC14(t *testing.T) {
	st := stats.New("C14", "replay")
	defer st.Flush()
	if os.Getenv("VERIF_REPLAYS") == "" {
		t.Skip()
	}
	fx.ReplayDir(t, st)
}
