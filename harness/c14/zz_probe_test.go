package c14

import (
	"fmt"
	"os"
	"strings"
	"testing"

	"github.com/dolthub/go-mysql-server/vh/internal/fx"
)

// development probe (scratch; removed before hand-over): VERIF_PROBE=file with one statement per line
func TestProbe(t *testing.T) {
	p := os.Getenv("VERIF_PROBE")
	if p == "" {
		t.Skip()
	}
	b, _ := os.ReadFile(p)
	f := fx.New(fx.Opts{})
	s := f.NewSession("", "", "")
	for _, q := range strings.Split(string(b), "\n") {
		q = strings.TrimSpace(q)
		if q == "" || strings.HasPrefix(q, "#") {
			continue
		}
		if q == "--reset" {
			f = fx.New(fx.Opts{})
			s = f.NewSession("", "", "")
			fmt.Println("---------")
			continue
		}
		r := s.Exec(q)
		extra := ""
		if ok, is := r.OkResult(); is {
			extra = fmt.Sprintf("  info=%v insertid=%d", ok.Info, ok.InsertID)
		}
		fmt.Printf("%-90s => %s%s\n", q, r, extra)
		if r.Panic != nil {
			fmt.Println(r.Stack)
		}
	}
}
