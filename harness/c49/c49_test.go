package c49

import (
	"strings"
	"testing"

	"github.com/dolthub/go-mysql-server/internal/similartext"
	"github.com/dolthub/go-mysql-server/vh/internal/stats"
	"pgregory.net/rapid"
)

// refDistance is the documented metric of similartext: Levenshtein distance with
// insert/delete cost 1 and substitution cost 2, which equals len(a)+len(b)-2*LCS(a,b).
// It is computed here through an independent LCS routine.
func refDistance(a, b string) int {
	n, m := len(a), len(b)
	l := make([][]int, n+1)
	for i := range l {
		l[i] = make([]int, m+1)
	}
	for i := n - 1; i >= 0; i-- {
		for j := m - 1; j >= 0; j-- {
			if a[i] == b[j] {
				l[i][j] = l[i+1][j+1] + 1
			} else if l[i+1][j] > l[i][j+1] {
				l[i][j] = l[i+1][j]
			} else {
				l[i][j] = l[i][j+1]
			}
		}
	}
	return n + m - 2*l[0][0]
}

func parseSuggestion(s string) ([]string, bool) {
	const pre, suf = ", maybe you mean ", "?"
	if !strings.HasPrefix(s, pre) || !strings.HasSuffix(s, suf) {
		return nil, false
	}
	body := s[len(pre) : len(s)-len(suf)]
	return strings.Split(body, " or "), true
}

func TestC49(t *testing.T) {
	st := stats.New("C49", "")
	defer st.Flush()
	name := rapid.StringMatching(`[abcd_]{0,7}`)
	rapid.Check(t, func(rt *rapid.T) {
		st.Eval()
		src := name.Draw(rt, "src")
		// candidates: independent names and small edits of src so that several lie at
		// distance 0..4
		cands := rapid.SliceOfN(rapid.OneOf(
			rapid.StringMatching(`[abcd_]{1,7}`),
			rapid.Custom(func(rt *rapid.T) string {
				b := []byte(src)
				edits := rapid.IntRange(0, 3).Draw(rt, "edits")
				for e := 0; e < edits; e++ {
					switch rapid.IntRange(0, 2).Draw(rt, "op") {
					case 0: // insert
						p := rapid.IntRange(0, len(b)).Draw(rt, "p")
						ch := rapid.SampledFrom([]byte("abcd_")).Draw(rt, "ch")
						b = append(b[:p], append([]byte{ch}, b[p:]...)...)
					case 1: // delete
						if len(b) > 0 {
							p := rapid.IntRange(0, len(b)-1).Draw(rt, "p")
							b = append(b[:p], b[p+1:]...)
						}
					case 2: // substitute
						if len(b) > 0 {
							p := rapid.IntRange(0, len(b)-1).Draw(rt, "p")
							b[p] = rapid.SampledFrom([]byte("abcd_")).Draw(rt, "ch")
						}
					}
				}
				if len(b) == 0 {
					return "a"
				}
				return string(b)
			})), 0, 8).Draw(rt, "cands")
		useMap := rapid.Bool().Draw(rt, "useMap")

		var got string
		var eff []string // effective candidate multiset
		if useMap {
			m := map[string]int{}
			for i, c := range cands {
				m[c] = i
			}
			for c := range m {
				eff = append(eff, c)
			}
			got = similartext.FindFromMap(m, src)
		} else {
			eff = append(eff, cands...)
			got = similartext.Find(cands, src)
		}

		// reference
		best := -1
		dists := map[int]bool{}
		for _, c := range eff {
			d := refDistance(c, src)
			if d >= similartext.DistanceSkipped {
				continue
			}
			dists[d] = true
			if best == -1 || d < best {
				best = d
			}
		}
		var want []string
		for _, c := range eff {
			if best >= 0 && refDistance(c, src) == best {
				want = append(want, c)
			}
		}
		if len(want) == 0 {
			if got != "" {
				rt.Fatalf("src=%q cands=%q: no candidate within the threshold, got %q", src, eff, got)
			}
			return
		}
		if src == "" && got == "" {
			// the empty name is never looked up by callers; "no suggestion" is accepted for it
			st.Class("empty-src")
			return
		}
		gotNames, ok := parseSuggestion(got)
		if !ok || len(gotNames) == 0 {
			rt.Fatalf("src=%q cands=%q: malformed or missing suggestion %q, closest are %q", src, eff, got, want)
		}
		// the statement asks for "a candidate with minimal edit distance": every suggested
		// name must be one of the closest candidates (ties may be reported in any number/order)
		isWant := map[string]bool{}
		for _, w := range want {
			isWant[w] = true
		}
		for _, g := range gotNames {
			if !isWant[g] {
				rt.Fatalf("src=%q cands=%q: suggested %q, but the closest candidates are %q (distance %d)", src, eff, gotNames, want, best)
			}
		}
		if len(dists) >= 2 {
			st.NonTrivial(map[string]any{"src": src, "candidates": eff, "map": useMap, "suggestion": got}, src, eff, useMap)
		}
		st.Class("qualifying")
	})
}
