// Package c36 checks property C36: concurrent read-only sessions are race-free and isolated.
package c36

import (
	"fmt"
	"strings"

	"pgregory.net/rapid"
)

// The fixed database: five tables with primary, unique, secondary, multi-column keys, a view
// and a (read-only) stored procedure. The contents are computed by formulas so that every
// case sees the same data.
func setupStatements() []string {
	qs := []string{
		"CREATE TABLE t1 (id INT PRIMARY KEY, a INT, b VARCHAR(8), c DECIMAL(10,2), KEY ia (a), KEY iab (a, b))",
		"CREATE TABLE t2 (id INT PRIMARY KEY, t1_id INT, d DATE, e BIGINT, KEY it1 (t1_id), UNIQUE KEY ue (e))",
		"CREATE TABLE t3 (k VARCHAR(8) PRIMARY KEY, v INT, f DOUBLE)",
		"CREATE TABLE t4 (x INT, y INT, z TEXT, PRIMARY KEY (x, y))",
		"CREATE TABLE t5 (id INT PRIMARY KEY, j JSON, n INT)",
	}
	var rows []string
	for i := 1; i <= 120; i++ {
		b := fmt.Sprintf("'%c%d'", 'a'+i%5, i%7)
		if i%11 == 0 {
			b = "NULL"
		}
		rows = append(rows, fmt.Sprintf("(%d, %d, %s, %d.%02d)", i, i%13, b, i*3%50, i%100))
	}
	qs = append(qs, "INSERT INTO t1 VALUES "+strings.Join(rows, ","))
	rows = nil
	for i := 1; i <= 150; i++ {
		rows = append(rows, fmt.Sprintf("(%d, %d, '2024-%02d-%02d', %d)", i, i*7%130, 1+i%12, 1+i%28, 1000+i*i))
	}
	qs = append(qs, "INSERT INTO t2 VALUES "+strings.Join(rows, ","))
	rows = nil
	for i := 1; i <= 40; i++ {
		rows = append(rows, fmt.Sprintf("('k%02d', %d, %d.5)", i, i%9, i))
	}
	qs = append(qs, "INSERT INTO t3 VALUES "+strings.Join(rows, ","))
	rows = nil
	for x := 0; x < 10; x++ {
		for y := 0; y < 6; y++ {
			rows = append(rows, fmt.Sprintf("(%d, %d, 'z%d-%d')", x, y, x, y))
		}
	}
	qs = append(qs, "INSERT INTO t4 VALUES "+strings.Join(rows, ","))
	rows = nil
	for i := 1; i <= 30; i++ {
		rows = append(rows, fmt.Sprintf(`(%d, '{"a": %d, "b": ["x", %d], "c": {"d": "v%d"}}', %d)`, i, i%4, i, i%3, i%10))
	}
	qs = append(qs, "INSERT INTO t5 VALUES "+strings.Join(rows, ","))
	qs = append(qs,
		"CREATE VIEW v1 AS SELECT t1.id, t1.a, t2.e FROM t1 JOIN t2 ON t1.id = t2.t1_id",
		"CREATE PROCEDURE pr(m INT) BEGIN DECLARE cnt INT; SELECT count(*) INTO cnt FROM t1 WHERE a < m; SELECT cnt, m; END",
	)
	return qs
}

// showViaInfoSchema lists the SHOW statements that planbuilder implements as a SELECT over a
// (shared) information_schema table object, whose catalog field buildResolvedTable assigns.
var showViaInfoSchema = map[string]bool{
	"SHOW PROCEDURE STATUS": true, "SHOW FUNCTION STATUS": true, "SHOW COLLATION LIKE 'utf8mb4_0900%'": true,
	"SHOW ENGINES": true, "SHOW PLUGINS": true,
}

// stmt is one read-only statement of the pool.
type stmt struct {
	SQL      string
	Tables   []string // tables it reads (for the overlap measure)
	PlanOnly bool     // EXPLAIN / DESCRIBE of a plan: only succeeded/failed is compared (plan shapes are not part of the property)
	Volatile bool     // reads the shared registries (process list, thread counters): the rows legitimately depend on what the other sessions do; only succeeded/failed is compared
	Class    string
}

func ri(rt *rapid.T, lo, hi int, label string) int { return rapid.IntRange(lo, hi).Draw(rt, label) }

// genStmt draws one read-only statement over the fixed database. Every statement is
// deterministic given the (unchanging) data: no clock, random, connection-dependent or
// process-list-dependent functions, and LIMIT only under a total ORDER BY.
func genStmt(rt *rapid.T) stmt {
	type tpl struct {
		class  string
		tables []string
		mk     func() string
	}
	bpat := func() string {
		return fmt.Sprintf("%c%%", 'a'+ri(rt, 0, 5, "b"))
	}
	tpls := []tpl{
		{"index-point", []string{"t1"}, func() string {
			return fmt.Sprintf("SELECT id, a, b, c FROM t1 WHERE a = %d", ri(rt, -1, 13, "a"))
		}},
		{"index-range", []string{"t1"}, func() string {
			lo := ri(rt, 0, 12, "lo")
			return fmt.Sprintf("SELECT id, b FROM t1 WHERE a BETWEEN %d AND %d AND b LIKE '%s'", lo, lo+ri(rt, 0, 4, "w"), bpat())
		}},
		{"index-in", []string{"t1"}, func() string {
			return fmt.Sprintf("SELECT id FROM t1 WHERE a IN (%d, %d, %d) AND b IS NOT NULL", ri(rt, 0, 12, "x"), ri(rt, 0, 12, "y"), ri(rt, 0, 20, "z"))
		}},
		{"pk-range", []string{"t2"}, func() string {
			lo := ri(rt, 0, 150, "lo")
			return fmt.Sprintf("SELECT id, t1_id, d, e FROM t2 WHERE id > %d AND id <= %d", lo, lo+ri(rt, 0, 40, "w"))
		}},
		{"unique-point", []string{"t2"}, func() string {
			k := ri(rt, 1, 160, "k")
			return fmt.Sprintf("SELECT id, d FROM t2 WHERE e = %d", 1000+k*k)
		}},
		{"join", []string{"t1", "t2"}, func() string {
			return fmt.Sprintf("SELECT t1.id, t1.b, t2.e FROM t1 JOIN t2 ON t1.id = t2.t1_id WHERE t1.a < %d", ri(rt, 0, 13, "a"))
		}},
		{"left-join", []string{"t1", "t2"}, func() string {
			return fmt.Sprintf("SELECT t1.id, t2.id FROM t1 LEFT JOIN t2 ON t1.id = t2.t1_id AND t2.e > %d WHERE t1.a = %d", 1000+ri(rt, 0, 20000, "e"), ri(rt, 0, 12, "a"))
		}},
		{"join3", []string{"t1", "t2", "t4"}, func() string {
			return fmt.Sprintf("SELECT t1.id, t4.z, t2.d FROM t1 JOIN t4 ON t1.a = t4.x JOIN t2 ON t2.t1_id = t1.id WHERE t4.y = %d AND t1.id < %d", ri(rt, 0, 6, "y"), ri(rt, 0, 120, "id"))
		}},
		{"group", []string{"t1"}, func() string {
			return fmt.Sprintf("SELECT a, count(*), sum(c), min(b) FROM t1 GROUP BY a HAVING count(*) > %d", ri(rt, 0, 10, "n"))
		}},
		{"agg", []string{"t2"}, func() string {
			return fmt.Sprintf("SELECT max(e), min(d), count(DISTINCT t1_id) FROM t2 WHERE id %% %d = 0", ri(rt, 1, 5, "m"))
		}},
		{"window", []string{"t1"}, func() string {
			return fmt.Sprintf("SELECT id, a, row_number() OVER (PARTITION BY a ORDER BY id) FROM t1 WHERE a < %d", ri(rt, 0, 13, "a"))
		}},
		{"in-subquery", []string{"t1", "t2"}, func() string {
			return fmt.Sprintf("SELECT id, a FROM t1 WHERE id IN (SELECT t1_id FROM t2 WHERE e > %d)", 1000+ri(rt, 0, 22500, "e"))
		}},
		{"exists", []string{"t1", "t2"}, func() string {
			return fmt.Sprintf("SELECT id FROM t1 WHERE a = %d AND NOT EXISTS (SELECT 1 FROM t2 WHERE t2.t1_id = t1.id)", ri(rt, 0, 12, "a"))
		}},
		{"scalar-subquery", []string{"t1", "t2"}, func() string {
			return fmt.Sprintf("SELECT id, (SELECT count(*) FROM t2 WHERE t2.t1_id = t1.id) FROM t1 WHERE id <= %d", ri(rt, 0, 60, "id"))
		}},
		{"distinct", []string{"t1"}, func() string {
			return fmt.Sprintf("SELECT DISTINCT a, b FROM t1 WHERE id > %d", ri(rt, 0, 120, "id"))
		}},
		{"union", []string{"t1", "t3"}, func() string {
			return fmt.Sprintf("(SELECT a FROM t1 WHERE id < %d) UNION (SELECT v FROM t3 WHERE v > %d)", ri(rt, 0, 60, "id"), ri(rt, 0, 9, "v"))
		}},
		{"cte", []string{"t1"}, func() string {
			return fmt.Sprintf("WITH c AS (SELECT a, count(*) AS n FROM t1 GROUP BY a) SELECT a, n FROM c WHERE n >= %d", ri(rt, 0, 11, "n"))
		}},
		{"recursive-cte", nil, func() string {
			return fmt.Sprintf("WITH RECURSIVE r (n) AS (SELECT 1 UNION ALL SELECT n + 1 FROM r WHERE n < %d) SELECT sum(n), count(*) FROM r", ri(rt, 1, 60, "n"))
		}},
		{"order-limit", []string{"t1"}, func() string {
			return fmt.Sprintf("SELECT id, a FROM t1 ORDER BY a DESC, id LIMIT %d OFFSET %d", ri(rt, 0, 20, "l"), ri(rt, 0, 110, "o"))
		}},
		{"view", []string{"t1", "t2"}, func() string {
			return fmt.Sprintf("SELECT id, a, e FROM v1 WHERE a = %d", ri(rt, 0, 12, "a"))
		}},
		{"composite-pk", []string{"t4"}, func() string {
			return fmt.Sprintf("SELECT x, y, z FROM t4 WHERE x = %d AND y >= %d", ri(rt, 0, 10, "x"), ri(rt, 0, 6, "y"))
		}},
		{"string-pk", []string{"t3"}, func() string {
			return fmt.Sprintf("SELECT k, v, f FROM t3 WHERE k > 'k%02d' AND v <> %d", ri(rt, 0, 40, "k"), ri(rt, 0, 9, "v"))
		}},
		{"json", []string{"t5"}, func() string {
			return fmt.Sprintf("SELECT id, JSON_EXTRACT(j, '$.c.d'), j->>'$.a' FROM t5 WHERE n > %d", ri(rt, 0, 9, "n"))
		}},
		{"scan-expr", []string{"t5"}, func() string {
			return fmt.Sprintf("SELECT id, n * 2 + 1, concat('p', id) FROM t5 WHERE n %% %d = 1", ri(rt, 2, 5, "m"))
		}},
		{"call", []string{"t1"}, func() string { return fmt.Sprintf("CALL pr(%d)", ri(rt, 0, 13, "m")) }},
		{"show", nil, func() string {
			q := rapid.SampledFrom([]string{
				"SHOW TABLES", "SHOW FULL TABLES", "SHOW DATABASES", "SHOW CREATE TABLE t1", "SHOW CREATE TABLE t2", "SHOW CREATE TABLE t4",
				"SHOW COLUMNS FROM t2", "SHOW FULL COLUMNS FROM t1", "SHOW INDEXES FROM t1", "SHOW KEYS FROM t4", "SHOW CREATE VIEW v1",
				"SHOW CREATE PROCEDURE pr", "SHOW PROCEDURE STATUS", "SHOW VARIABLES LIKE 'sql_mode'", "SHOW VARIABLES LIKE 'max_%'",
				"SHOW TRIGGERS", "SHOW CHARSET", "SHOW COLLATION LIKE 'utf8mb4_0900%'", "SHOW ENGINES", "SHOW GRANTS", // not SHOW WARNINGS: it reports on the session's previous statement
				"SHOW FUNCTION STATUS", "SHOW PLUGINS",
			}).Draw(rt, "show")
			if showViaInfoSchema[q] && excludeInfoSchema() {
				// planbuilder turns these into a SELECT over an information_schema table
				// (show.go: b.Parse("select ... from information_schema.<table>")): same region
				if st := curStats; st != nil {
					st.Excluded(knownInfoSchema)
				}
				q = "SHOW TABLES"
			}
			return q
		}},
		{"information_schema", nil, func() string {
			return rapid.SampledFrom([]string{
				"SELECT table_name, table_type FROM information_schema.tables WHERE table_schema = 'd'",
				"SELECT table_name, column_name, data_type, column_key FROM information_schema.columns WHERE table_schema = 'd'",
				"SELECT table_name, index_name, column_name, seq_in_index FROM information_schema.statistics WHERE table_schema = 'd'",
				"SELECT table_name FROM information_schema.views WHERE table_schema = 'd'",
				"SELECT routine_name, routine_type FROM information_schema.routines WHERE routine_schema = 'd'",
				"SELECT schema_name FROM information_schema.schemata",
				"SELECT constraint_name, table_name, constraint_type FROM information_schema.table_constraints WHERE table_schema = 'd'",
				"SELECT table_name, column_name, constraint_name FROM information_schema.key_column_usage WHERE table_schema = 'd'",
				"SELECT c.table_name, count(*) FROM information_schema.columns c JOIN information_schema.tables t ON c.table_name = t.table_name AND c.table_schema = t.table_schema WHERE t.table_schema = 'd' GROUP BY c.table_name",
			}).Draw(rt, "is")
		}},
		{"sysvars", nil, func() string {
			return rapid.SampledFrom([]string{
				"SELECT @@sql_mode, @@autocommit, @@max_connections", "SELECT @@session.sql_mode", "SELECT @@global.max_allowed_packet, @@character_set_server",
				"SELECT @@collation_connection, @@lower_case_table_names", "SELECT database(), version() IS NOT NULL",
			}).Draw(rt, "sysvar")
		}},
		{"registry", nil, func() string {
			return rapid.SampledFrom([]string{
				"SHOW PROCESSLIST", "SHOW FULL PROCESSLIST", "SHOW STATUS LIKE 'Threads%'", "SHOW GLOBAL STATUS LIKE 'Questions'", "SHOW STATUS LIKE 'Com_select'",
			}).Draw(rt, "registry")
		}},
		{"error", nil, func() string {
			return rapid.SampledFrom([]string{
				"SELECT * FROM nosuch", "SELECT nocol FROM t1", "SELECT id FROM t1 WHERE", "SELECT a, count(*) FROM t1 GROUP BY nocol",
				"SELECT (SELECT id FROM t1)", "CALL nosuchproc()", "SHOW CREATE TABLE nosuch", "SELECT * FROM t1 JOIN t2 ON t1.id = t9.id",
			}).Draw(rt, "err")
		}},
	}
	t := tpls[rapid.IntRange(0, len(tpls)-1).Draw(rt, "template")]
	if t.class == "information_schema" && excludeInfoSchema() {
		// region of known finding C36-infoschema-shared-table: excluded by construction, the
		// witness is re-confirmed by TestC36Known
		if st := curStats; st != nil {
			st.Excluded(knownInfoSchema)
		}
		t = tpls[0]
	}
	s := stmt{SQL: t.mk(), Tables: t.tables, Class: t.class, Volatile: t.class == "registry"}
	// one in eight: look at the plan of the statement instead of running it
	if t.class != "show" && t.class != "error" && t.class != "call" && t.class != "sysvars" && t.class != "registry" && ri(rt, 0, 7, "explain") == 0 {
		s.SQL, s.PlanOnly, s.Class = "EXPLAIN "+s.SQL, true, "explain"
	}
	return s
}
