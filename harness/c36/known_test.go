package c36

import (
	"fmt"
	"os"
	"os/exec"
	"strings"
	"sync"
	"testing"

	"github.com/dolthub/go-mysql-server/vh/internal/kf"
	"github.com/dolthub/go-mysql-server/vh/internal/stats"
)

// Witness of C36-infoschema-shared-table: two sessions, each reading information_schema
// tables a few times. Meant to run in a child process (the race detector halts the process).
const witnessEnv = "C36_WITNESS"

var witnessQueries = []string{
	"SHOW COLLATION LIKE 'utf8mb4_0900%'",
	"SELECT table_name FROM information_schema.tables WHERE table_schema = 'd'",
	"SELECT routine_name FROM information_schema.routines WHERE routine_schema = 'd'",
	"SELECT index_name FROM information_schema.statistics WHERE table_schema = 'd'",
}

func TestC36Witness(t *testing.T) {
	if os.Getenv(witnessEnv) == "" {
		t.Skip("runs only as the child process of TestC36Known")
	}
	e, err := newEnv()
	if err != nil {
		t.Fatalf("harness: %v", err)
	}
	defer e.engine.Close()
	var wg sync.WaitGroup
	for g := 0; g < 2; g++ {
		s := e.connect()
		wg.Add(1)
		go func() {
			defer wg.Done()
			for i := 0; i < 10; i++ {
				for _, q := range witnessQueries {
					if r := s.exec(q); r.err != "" || r.panic != "" {
						t.Errorf("%s: %s", q, r)
					}
				}
			}
		}()
	}
	wg.Wait()
}

// TestC36Known runs the witness of C36-infoschema-shared-table in a child process (the race
// detector halts the process). Finding listed: the race report must match the finding's
// signature - both conflicting accesses are the unsynchronised field writes/reads of a shared
// information_schema table object (AssignCatalog / AssignProcedures / the catalog read in
// PartitionRows) - and counts as a known hit; a clean child is reported as stale. Finding not
// listed (e.g. after a fix): the witness must run without any race report.
func TestC36Known(t *testing.T) {
	st := stats.New("C36", "known")
	defer st.Flush()
	st.Eval()
	cmd := exec.Command(os.Args[0], "-test.run", "^TestC36Witness$", "-test.v")
	cmd.Env = append(os.Environ(), witnessEnv+"=1", "GORACE=halt_on_error=1 exitcode=66", "VERIF_STATS_OUT=")
	out, err := cmd.CombinedOutput()
	txt := string(out)
	code := 0
	if ee, ok := err.(*exec.ExitError); ok {
		code = ee.ExitCode()
	} else if err != nil {
		t.Fatalf("harness: cannot run the witness: %v", err)
	}
	switch {
	case code == 0:
		st.Class("witness-clean")
		if kf.Listed(knownInfoSchema) {
			t.Logf("STALE known finding %s: the witness no longer produces a race report (fixed, or binary built without -race)", knownInfoSchema)
			fmt.Printf("C36 known finding %s is stale: the witness no longer produces a race report\n", knownInfoSchema)
		}
	case code == 66 && strings.Contains(txt, "WARNING: DATA RACE") && matchesInfoSchemaSignature(txt):
		st.Class("witness-race")
		if !kf.Suppress(st, knownInfoSchema) {
			t.Fatalf("data race between two sessions that read information_schema tables concurrently (proposed id %s):\n%s", knownInfoSchema, clip(txt))
		}
		t.Logf("KNOWN %s: witness still races", knownInfoSchema)
	default:
		t.Fatalf("the witness of %s failed in a way that does not match its signature (exit code %d):\n%s", knownInfoSchema, code, clip(txt))
	}
}

func clip(s string) string {
	if len(s) > 6000 {
		return s[:6000] + "\n..."
	}
	return s
}

// matchesInfoSchemaSignature: the first two access stacks of the report have their top frame
// in package sql/information_schema, in one of the methods that touch the shared fields.
func matchesInfoSchemaSignature(report string) bool {
	tops := 0
	lines := strings.Split(report, "\n")
	for i, l := range lines {
		isAccess := strings.HasPrefix(l, "Write at ") || strings.HasPrefix(l, "Read at ") || strings.HasPrefix(l, "Previous write at ") || strings.HasPrefix(l, "Previous read at ")
		if !isAccess || i+1 >= len(lines) {
			continue
		}
		top := strings.TrimSpace(lines[i+1])
		if !strings.Contains(top, "/sql/information_schema.") {
			return false
		}
		ok := false
		for _, m := range []string{"AssignCatalog", "AssignProcedures", "PartitionRows", "RowCount", "DataLength"} {
			if strings.Contains(top, ")."+m+"(") {
				ok = true
			}
		}
		if !ok {
			return false
		}
		tops++
		if tops == 2 {
			return true
		}
	}
	return false
}
