package c36

import (
	"context"
	"database/sql/driver"
	"fmt"
	"io"
	"net"
	"os"
	"runtime"
	"sort"
	"strings"
	"sync"
	"sync/atomic"
	"testing"
	"time"

	"github.com/dolthub/go-mysql-server/memory"
	"github.com/dolthub/go-mysql-server/server"
	"github.com/dolthub/go-mysql-server/sql"
	"github.com/dolthub/go-mysql-server/sql/variables"
	"github.com/dolthub/go-mysql-server/vh/internal/stats"
	"github.com/go-sql-driver/mysql"
	"github.com/sirupsen/logrus"
	"pgregory.net/rapid"
)

// watchdog bounds waits for server events; expiry = inconclusive, never a violation.
const watchdog = 90 * time.Second

func inconclusive(st *stats.Collector, format string, a ...any) {
	st.Flush()
	fmt.Printf("panic: test timed out (harness watchdog, not a verdict): "+format+"\n", a...)
	os.Exit(3)
}

type events struct{ connected, disconnected atomic.Int64 }

func (e *events) ClientConnected()                   { e.connected.Add(1) }
func (e *events) ClientDisconnected()                { e.disconnected.Add(1) }
func (e *events) QueryStarted()                      {}
func (e *events) QueryCompleted(bool, time.Duration) {}

type wsrv struct {
	e    *env
	srv  *server.Server
	addr string
	ev   *events
	done chan struct{}
}

func (e *env) serve() (*wsrv, error) {
	logrus.SetOutput(io.Discard)
	ln, err := net.Listen("tcp", "127.0.0.1:0")
	if err != nil {
		return nil, err
	}
	w := &wsrv{e: e, addr: ln.Addr().String(), ev: &events{}, done: make(chan struct{})}
	cfg := server.Config{Protocol: "tcp", Address: w.addr, Listener: ln}
	w.srv, err = server.NewServer(cfg, e.engine, sql.NewContext, memory.NewSessionBuilder(e.pro), w.ev)
	if err != nil {
		ln.Close()
		return nil, err
	}
	go func() {
		defer close(w.done)
		_ = w.srv.Start()
	}()
	return w, nil
}

func (w *wsrv) stop(st *stats.Collector) {
	_ = w.srv.Close()
	fin := make(chan struct{})
	go func() {
		<-w.done
		w.srv.SessionManager().WaitForClosedConnections()
		close(fin)
	}()
	select {
	case <-fin:
	case <-time.After(watchdog):
		inconclusive(st, "server teardown did not finish")
	}
}

func (w *wsrv) waitDisconnected(st *stats.Collector, n int64) {
	deadline := time.Now().Add(watchdog)
	for w.ev.disconnected.Load() < n {
		if time.Now().After(deadline) {
			inconclusive(st, "server did not finish closing a connection (%d of %d)", w.ev.disconnected.Load(), n)
		}
		time.Sleep(100 * time.Microsecond)
	}
}

type wclient struct{ dc driver.Conn }

func (w *wsrv) connect() (*wclient, error) {
	cfg := mysql.NewConfig()
	cfg.User, cfg.Net, cfg.Addr, cfg.DBName = "root", "tcp", w.addr, "d"
	conn, err := mysql.NewConnector(cfg)
	if err != nil {
		return nil, err
	}
	dc, err := conn.Connect(context.Background())
	if err != nil {
		return nil, err
	}
	return &wclient{dc: dc}, nil
}

// exec runs a statement over the wire; rows become sorted strings.
func (c *wclient) exec(q string) (res outcome) {
	rows, err := c.dc.(driver.QueryerContext).QueryContext(context.Background(), q, nil)
	if err != nil {
		return outcome{err: err.Error()}
	}
	defer rows.Close()
	for {
		dest := make([]driver.Value, len(rows.Columns()))
		if err := rows.Next(dest); err != nil {
			if err == io.EOF {
				break
			}
			return outcome{err: err.Error()}
		}
		parts := make([]string, len(dest))
		for i, v := range dest {
			switch x := v.(type) {
			case nil:
				parts[i] = "NULL"
			case []byte:
				parts[i] = "'" + string(x) + "'"
			default:
				parts[i] = fmt.Sprint(x)
			}
		}
		res.rows = append(res.rows, strings.Join(parts, ","))
		// CALL returns several result sets; the text protocol of this driver exposes the next
		// ones through HasNextResultSet
	}
	for {
		nrs, ok := rows.(driver.RowsNextResultSet)
		if !ok || !nrs.HasNextResultSet() {
			break
		}
		if err := nrs.NextResultSet(); err != nil {
			if err == io.EOF {
				break
			}
			return outcome{err: err.Error()}
		}
		res.rows = append(res.rows, "--next--")
		for {
			dest := make([]driver.Value, len(rows.Columns()))
			if err := rows.Next(dest); err != nil {
				break
			}
			res.rows = append(res.rows, fmt.Sprintf("%v", dest))
		}
	}
	sort.Strings(res.rows)
	return res
}

// TestC36Wire — the same property with real client connections: the handler's own
// goroutines (row spooling, disconnect watch) take part.
func TestC36Wire(t *testing.T) {
	st := stats.New("C36", "wire")
	defer st.Flush()
	curStats = st
	variables.InitStatusVariables()
	thorough := os.Getenv("VERIF_TIER") == "thorough"
	rapid.Check(t, func(rt *rapid.T) {
		st.Eval()
		maxSess, maxSteps := 6, 15
		if thorough {
			maxSess, maxSteps = 12, 30
		}
		pool := rapid.SliceOfN(rapid.Custom(genStmt), 8, 30).Draw(rt, "pool")
		nSess := rapid.IntRange(2, maxSess).Draw(rt, "clients")
		stepGen := rapid.Custom(func(rt *rapid.T) step {
			return step{Stmt: rapid.IntRange(0, len(pool)-1).Draw(rt, "stmt"), Yields: rapid.SampledFrom([]int{0, 0, 0, 1, 3, 10}).Draw(rt, "yields")}
		})
		sched := make([][]step, nSess)
		for i := range sched {
			sched[i] = rapid.SliceOfN(stepGen, 3, maxSteps).Draw(rt, fmt.Sprintf("sched%d", i))
		}
		baselineFirst := rapid.Bool().Draw(rt, "baselineFirst")

		e, err := newEnv()
		if err != nil {
			rt.Fatalf("harness: %v", err)
		}
		defer e.engine.Close()
		baseTC, baseTR := statusVar("Threads_connected"), statusVar("Threads_running")
		w, err := e.serve()
		if err != nil {
			rt.Fatalf("harness: %v", err)
		}
		var clients []*wclient
		var opened int64
		defer func() {
			for _, c := range clients {
				c.dc.Close()
			}
			w.stop(st)
		}()
		dial := func() *wclient {
			c, err := w.connect()
			if err != nil {
				rt.Fatalf("harness: connect: %v", err)
			}
			opened++
			clients = append(clients, c)
			return c
		}

		alone := make([]outcome, len(pool))
		baseline := func() {
			bc := dial()
			for i, s := range pool {
				alone[i] = bc.exec(s.SQL)
			}
		}
		if baselineFirst {
			baseline()
		}
		cs := make([]*wclient, nSess)
		for i := range cs {
			cs[i] = dial()
		}
		base := time.Now()
		start := make(chan struct{})
		runs := make([][]ran, nSess)
		var wg sync.WaitGroup
		for i := 0; i < nSess; i++ {
			wg.Add(1)
			go func(i int) {
				defer wg.Done()
				<-start
				for _, sp := range sched[i] {
					for y := 0; y < sp.Yields; y++ {
						runtime.Gosched()
					}
					r := ran{sess: i, stmt: sp.Stmt, start: int64(time.Since(base))}
					r.out = cs[i].exec(pool[sp.Stmt].SQL)
					r.end = int64(time.Since(base))
					runs[i] = append(runs[i], r)
				}
			}(i)
		}
		close(start)
		wg.Wait()
		if !baselineFirst {
			baseline()
		}

		var bad []string
		// barrier: once a connection answered a ping its previous command has completely ended
		for _, c := range clients {
			if err := c.dc.(driver.Pinger).Ping(context.Background()); err != nil {
				bad = append(bad, fmt.Sprintf("ping failed: %v", err))
			}
		}
		procs := e.engine.ProcessList.Processes()
		if len(procs) != len(clients) {
			bad = append(bad, fmt.Sprintf("process list has %d entries, %d clients are connected", len(procs), len(clients)))
		}
		for _, p := range procs {
			if p.Command != sql.ProcessCommandSleep || p.Query != "" {
				bad = append(bad, fmt.Sprintf("process list: connection %d shows Command=%q Query=%q although nothing is running", p.Connection, p.Command, p.Query))
			}
		}
		if v := statusVar("Threads_running") - baseTR; v != 0 {
			bad = append(bad, fmt.Sprintf("Threads_running = %d although nothing is running", int64(v)))
		}
		if v := statusVar("Threads_connected") - baseTC; v != uint64(len(clients)) {
			bad = append(bad, fmt.Sprintf("Threads_connected = %d, %d clients are connected", int64(v), len(clients)))
		}
		if n := e.engine.MemoryManager.NumCaches(); n != 0 {
			bad = append(bad, fmt.Sprintf("memory manager still holds %d caches although every statement has finished", n))
		}
		for _, c := range clients {
			c.dc.Close()
		}
		clients = nil
		w.waitDisconnected(st, opened)
		if n := len(e.engine.ProcessList.Processes()); n != 0 {
			bad = append(bad, fmt.Sprintf("process list has %d entries after every client disconnected", n))
		}
		if v := statusVar("Threads_connected") - baseTC; v != 0 {
			bad = append(bad, fmt.Sprintf("Threads_connected = %d after every client disconnected", int64(v)))
		}

		total, overlapPairs, sameTable := 0, 0, false
		var all []ran
		for i := range runs {
			for _, r := range runs[i] {
				total++
				all = append(all, r)
				a := alone[r.stmt]
				if !r.out.equal(a, pool[r.stmt].PlanOnly || pool[r.stmt].Volatile) {
					bad = append(bad, fmt.Sprintf("client %d: %s\n      concurrently: %s\n      alone:        %s", i, pool[r.stmt].SQL, r.out, a))
				}
			}
		}
		if len(bad) > 0 {
			var sb strings.Builder
			for i, sc := range sched {
				fmt.Fprintf(&sb, "  client %d:", i)
				for _, sp := range sc {
					fmt.Fprintf(&sb, " #%d", sp.Stmt)
				}
				sb.WriteString("\n")
			}
			for i, s := range pool {
				fmt.Fprintf(&sb, "  #%d %s\n", i, s.SQL)
			}
			msg := fmt.Sprintf("C36 (wire) violation(s):\n  %s\nschedule (baseline first=%v):\n%s", strings.Join(bad, "\n  "), baselineFirst, sb.String())
			fmt.Println(msg)
			rt.Fatalf("%s", msg)
		}
		for i := range all {
			for j := i + 1; j < len(all); j++ {
				a, b := all[i], all[j]
				if a.sess != b.sess && a.start <= b.end && b.start <= a.end {
					overlapPairs++
					for _, x := range pool[a.stmt].Tables {
						for _, y := range pool[b.stmt].Tables {
							if x == y {
								sameTable = true
							}
						}
					}
				}
			}
		}
		if overlapPairs > 0 {
			st.Class("overlap")
		}
		if sameTable {
			st.Class("overlap-same-table")
			var key []string
			for i, sc := range sched {
				for _, sp := range sc {
					key = append(key, fmt.Sprintf("%d:%s", i, pool[sp.Stmt].SQL))
				}
			}
			st.NonTrivial(map[string]any{"clients": nSess, "statements": total, "overlapping_pairs": overlapPairs}, key)
		}
	})
}
