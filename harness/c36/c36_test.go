package c36

import (
	"context"
	"fmt"
	"io"
	"os"
	"runtime"
	"runtime/debug"
	"sort"
	"strings"
	"sync"
	"sync/atomic"
	"testing"
	"time"

	sqle "github.com/dolthub/go-mysql-server"
	"github.com/dolthub/go-mysql-server/memory"
	"github.com/dolthub/go-mysql-server/sql"
	"github.com/dolthub/go-mysql-server/sql/variables"
	"github.com/dolthub/go-mysql-server/vh/internal/fx"
	"github.com/dolthub/go-mysql-server/vh/internal/kf"
	"github.com/dolthub/go-mysql-server/vh/internal/stats"
	"pgregory.net/rapid"
)

// env is one engine over the fixed database; statements are executed in-process with the
// call protocol of server/handler.go doQuery: context with session, fresh pid, query text,
// memory manager and process list; BeginQuery ... EndQuery; SessionCommandBegin/End.
type env struct {
	pro    *memory.DbProvider
	engine *sqle.Engine
	pid    atomic.Uint64
	nextID atomic.Uint32
}

type session struct {
	e  *env
	s  *memory.Session
	id uint32
}

func newEnv() (*env, error) {
	pro := memory.NewDBProvider(memory.NewDatabase("d"))
	e := &env{pro: pro, engine: sqle.NewDefault(pro)}
	s := e.connect()
	for _, q := range setupStatements() {
		if r := s.exec(q); r.err != "" {
			return nil, fmt.Errorf("setup %.60q: %s", q, r.err)
		}
	}
	s.disconnect()
	return e, nil
}

// connect registers a session the way SessionManager.AddConn / ConnReady do.
func (e *env) connect() *session {
	id := e.nextID.Add(1)
	base := sql.NewBaseSessionWithClientServer("127.0.0.1:3306", sql.Client{User: "root", Address: "localhost"}, id)
	s := memory.NewSession(base, e.pro)
	s.SetCurrentDatabase("d")
	e.engine.ProcessList.AddConnection(id, "127.0.0.1:50000")
	e.engine.ProcessList.ConnectionReady(s)
	return &session{e: e, s: s, id: id}
}

func (s *session) disconnect() {
	s.e.engine.CloseSession(s.id)
	sql.SessionEnd(s.s)
	s.e.engine.ProcessList.RemoveConnection(s.id)
}

// outcome of one statement: normalised rows (sorted: results are compared as multisets) or
// the fact that it failed.
type outcome struct {
	rows  []string
	err   string // "" = succeeded
	panic string
}

func (o outcome) equal(p outcome, planOnly bool) bool {
	if (o.err != "") != (p.err != "") || (o.panic != "") != (p.panic != "") {
		return false
	}
	if o.err != "" || planOnly {
		return true // errors are compared as succeeded/failed, plans not at all
	}
	if len(o.rows) != len(p.rows) {
		return false
	}
	for i := range o.rows {
		if o.rows[i] != p.rows[i] {
			return false
		}
	}
	return true
}

func (o outcome) String() string {
	switch {
	case o.panic != "":
		return "PANIC " + o.panic
	case o.err != "":
		return "ERR " + o.err
	}
	if len(o.rows) > 12 {
		return fmt.Sprintf("%d rows [%s ...]", len(o.rows), strings.Join(o.rows[:12], " | "))
	}
	return fmt.Sprintf("%d rows [%s]", len(o.rows), strings.Join(o.rows, " | "))
}

func (s *session) exec(q string) (res outcome) {
	e := s.e
	ctx := sql.NewContext(context.Background(), sql.WithSession(s.s), sql.WithPid(e.pid.Add(1)), sql.WithQuery(q),
		sql.WithMemoryManager(e.engine.MemoryManager), sql.WithProcessList(e.engine.ProcessList))
	ctx, err := e.engine.ProcessList.BeginQuery(ctx, q)
	if err != nil {
		return outcome{err: "BeginQuery: " + err.Error()}
	}
	defer e.engine.ProcessList.EndQuery(ctx)
	if err := sql.SessionCommandBegin(s.s); err != nil {
		return outcome{err: "SessionCommandBegin: " + err.Error()}
	}
	defer sql.SessionCommandEnd(s.s)
	defer func() {
		if p := recover(); p != nil {
			res = outcome{panic: fmt.Sprintf("%v\n%s", p, debug.Stack())}
		}
	}()
	sch, iter, _, err := e.engine.Query(ctx, q)
	if err != nil {
		return outcome{err: err.Error()}
	}
	var rows []sql.Row
	for {
		row, err := iter.Next(ctx)
		if err == io.EOF {
			break
		}
		if err != nil {
			iter.Close(ctx)
			return outcome{err: err.Error()}
		}
		rows = append(rows, row)
	}
	if err := iter.Close(ctx); err != nil {
		return outcome{err: err.Error()}
	}
	for _, r := range fx.NormRows(sch, rows) {
		res.rows = append(res.rows, strings.Join(r, ","))
	}
	sort.Strings(res.rows)
	return res
}

func statusVar(name string) uint64 {
	_, v, ok := sql.StatusVariables.GetGlobal(name)
	if !ok {
		return 0
	}
	u, _ := v.(uint64)
	return u
}

// step of a schedule: statement index and yields before it
type step struct {
	Stmt   int
	Yields int
}

// run record
type ran struct {
	sess       int
	stmt       int
	start, end int64
	out        outcome
}

var counters = []string{"Questions", "Com_select"}

// TestC36 — sampled concurrent schedules of read-only statements, in-process sessions.
func TestC36(t *testing.T) {
	st := stats.New("C36", "inproc")
	defer st.Flush()
	curStats = st
	variables.InitStatusVariables()
	thorough := os.Getenv("VERIF_TIER") == "thorough"
	rapid.Check(t, func(rt *rapid.T) {
		st.Eval()
		maxSess, maxSteps := 8, 20
		if thorough {
			maxSess, maxSteps = 16, 40
		}
		pool := rapid.SliceOfN(rapid.Custom(genStmt), 8, 40).Draw(rt, "pool")
		nSess := rapid.IntRange(2, maxSess).Draw(rt, "sessions")
		stepGen := rapid.Custom(func(rt *rapid.T) step {
			return step{Stmt: rapid.IntRange(0, len(pool)-1).Draw(rt, "stmt"), Yields: rapid.SampledFrom([]int{0, 0, 0, 1, 3, 10}).Draw(rt, "yields")}
		})
		sched := make([][]step, nSess)
		for i := range sched {
			sched[i] = rapid.SliceOfN(stepGen, 3, maxSteps).Draw(rt, fmt.Sprintf("sched%d", i))
		}
		baselineFirst := rapid.Bool().Draw(rt, "baselineFirst") // else afterwards: the concurrent phase then meets cold caches

		e, err := newEnv()
		if err != nil {
			rt.Fatalf("harness: %v", err)
		}
		defer e.engine.Close()
		baseTC, baseTR := statusVar("Threads_connected"), statusVar("Threads_running")

		// "run alone": every pool statement once on its own session, nothing else running;
		// also records what the statement adds to the global counters
		alone := make([]outcome, len(pool))
		adds := make([][]uint64, len(pool))
		baseline := func() {
			bs := e.connect()
			for i, s := range pool {
				before := make([]uint64, len(counters))
				for k, c := range counters {
					before[k] = statusVar(c)
				}
				alone[i] = bs.exec(s.SQL)
				adds[i] = make([]uint64, len(counters))
				for k, c := range counters {
					adds[i][k] = statusVar(c) - before[k]
				}
			}
			bs.disconnect()
		}
		if baselineFirst {
			baseline()
		}

		// concurrent phase
		sessions := make([]*session, nSess)
		for i := range sessions {
			sessions[i] = e.connect()
		}
		before := make([]uint64, len(counters))
		for k, c := range counters {
			before[k] = statusVar(c)
		}
		base := time.Now()
		start := make(chan struct{})
		runs := make([][]ran, nSess)
		var wg sync.WaitGroup
		for i := 0; i < nSess; i++ {
			wg.Add(1)
			go func(i int) {
				defer wg.Done()
				<-start
				for _, sp := range sched[i] {
					for y := 0; y < sp.Yields; y++ {
						runtime.Gosched()
					}
					r := ran{sess: i, stmt: sp.Stmt, start: int64(time.Since(base))}
					r.out = sessions[i].exec(pool[sp.Stmt].SQL)
					r.end = int64(time.Since(base))
					runs[i] = append(runs[i], r)
				}
			}(i)
		}
		close(start)
		wg.Wait()
		after := make([]uint64, len(counters))
		for k, c := range counters {
			after[k] = statusVar(c)
		}

		var bad []string
		// registries, while the sessions are still connected
		procs := e.engine.ProcessList.Processes()
		if len(procs) != nSess {
			bad = append(bad, fmt.Sprintf("process list has %d entries, %d sessions are connected", len(procs), nSess))
		}
		for _, p := range procs {
			if p.Command != sql.ProcessCommandSleep || p.Query != "" {
				bad = append(bad, fmt.Sprintf("process list: connection %d shows Command=%q Query=%q although nothing is running", p.Connection, p.Command, p.Query))
			}
		}
		if v := statusVar("Threads_running") - baseTR; v != 0 {
			bad = append(bad, fmt.Sprintf("Threads_running = %d although nothing is running", int64(v)))
		}
		if v := statusVar("Threads_connected") - baseTC; v != uint64(nSess) {
			bad = append(bad, fmt.Sprintf("Threads_connected = %d, %d sessions are connected", int64(v), nSess))
		}
		if n := e.engine.MemoryManager.NumCaches(); n != 0 {
			bad = append(bad, fmt.Sprintf("memory manager still holds %d caches although every statement has finished", n))
		}
		for _, s := range sessions {
			s.disconnect()
		}
		if n := len(e.engine.ProcessList.Processes()); n != 0 {
			bad = append(bad, fmt.Sprintf("process list has %d entries after every session disconnected", n))
		}
		if v := statusVar("Threads_connected") - baseTC; v != 0 {
			bad = append(bad, fmt.Sprintf("Threads_connected = %d after every session disconnected", int64(v)))
		}
		if !baselineFirst {
			baseline()
		}

		// every result equals the result of the statement run alone
		want := make([]uint64, len(counters))
		total, overlapPairs, sameTable := 0, 0, false
		var all []ran
		for i := range runs {
			for _, r := range runs[i] {
				total++
				all = append(all, r)
				a := alone[r.stmt]
				for k := range counters {
					want[k] += adds[r.stmt][k]
				}
				if a.panic != "" {
					continue // crashes on its own: C10's subject, nothing to compare
				}
				if !r.out.equal(a, pool[r.stmt].PlanOnly || pool[r.stmt].Volatile) {
					bad = append(bad, fmt.Sprintf("session %d: %s\n      concurrently: %s\n      alone:        %s", i, pool[r.stmt].SQL, r.out, a))
				}
			}
		}
		for k, c := range counters {
			if got := after[k] - before[k]; got != want[k] {
				bad = append(bad, fmt.Sprintf("status counter %s grew by %d during the concurrent phase; the same statements run alone add %d", c, got, want[k]))
			}
		}
		if len(bad) > 0 {
			var sb strings.Builder
			for i, sc := range sched {
				fmt.Fprintf(&sb, "  session %d:", i)
				for _, sp := range sc {
					fmt.Fprintf(&sb, " #%d", sp.Stmt)
				}
				sb.WriteString("\n")
			}
			for i, s := range pool {
				fmt.Fprintf(&sb, "  #%d %s\n", i, s.SQL)
			}
			msg := fmt.Sprintf("C36 violation(s):\n  %s\nschedule (baseline first=%v):\n%s", strings.Join(bad, "\n  "), baselineFirst, sb.String())
			fmt.Println(msg)
			rt.Fatalf("%s", msg)
		}

		// measured overlap
		for i := range all {
			for j := i + 1; j < len(all); j++ {
				a, b := all[i], all[j]
				if a.sess != b.sess && a.start <= b.end && b.start <= a.end {
					overlapPairs++
					for _, x := range pool[a.stmt].Tables {
						for _, y := range pool[b.stmt].Tables {
							if x == y {
								sameTable = true
							}
						}
					}
				}
			}
		}
		cls := map[string]bool{}
		for _, r := range all {
			cls[pool[r.stmt].Class] = true
		}
		for c := range cls {
			st.Class("stmt-" + c)
		}
		if overlapPairs > 0 {
			st.Class("overlap")
		}
		if sameTable {
			st.Class("overlap-same-table")
			var key []string
			for i, sc := range sched {
				for _, sp := range sc {
					key = append(key, fmt.Sprintf("%d:%s", i, pool[sp.Stmt].SQL))
				}
			}
			st.NonTrivial(map[string]any{"sessions": nSess, "statements": total, "overlapping_pairs": overlapPairs}, key)
		}
	})
}

// Known finding C36-infoschema-shared-table: the information_schema table objects are shared
// by all sessions of a provider and planbuilder writes their catalog / procedures fields
// (AssignCatalog, AssignProcedures) for every query without synchronisation. The oracle that
// sees it is the race detector, which cannot be asked to continue selectively, so the region
// (statements reading information_schema tables) is excluded by construction while the
// finding is listed; TestC36Known re-confirms the witness in a child process.
const knownInfoSchema = "C36-infoschema-shared-table"

var curStats *stats.Collector

func excludeInfoSchema() bool { return kf.Listed(knownInfoSchema) }
