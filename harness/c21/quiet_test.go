package c21

import (
	"io"

	"github.com/sirupsen/logrus"
)

// The memory session rejects savepoints and the engine logs that (at error level) for every
// statement that fires a trigger; the log is not part of any oracle.
func init() { logrus.SetOutput(io.Discard) }
