package c21

// gen.go: rapid generators for the initial table and for the operation applied at each step.
// Every operation is drawn against the *current* model, so that the generator can aim at
// conversions that are exactly representable, at ones that are certainly not, and avoid the
// ones the property does not decide.

import (
	"fmt"

	"pgregory.net/rapid"
)

type gen struct {
	rt      *rapid.T
	big     bool // thorough tier: more rows
	nextCol int
	nextIdx int
	nextTbl int
}

func (g *gen) chance(pct int, name string) bool {
	return rapid.IntRange(0, 99).Draw(g.rt, name) < pct
}

func (g *gen) pick(n int, name string) int { return rapid.IntRange(0, n-1).Draw(g.rt, name) }

func (g *gen) freshCol() string { g.nextCol++; return fmt.Sprintf("c%d", g.nextCol) }
func (g *gen) freshIdx() string { g.nextIdx++; return fmt.Sprintf("k%d", g.nextIdx) }

var typePool = []ctype{
	{k: kInt, base: "tinyint"},
	{k: kInt, base: "int"},
	{k: kInt, base: "int"},
	{k: kInt, base: "bigint"},
	{k: kDec, base: "decimal", p: 10, s: 2},
	{k: kDec, base: "decimal", p: 10, s: 2},
	{k: kDec, base: "decimal", p: 12, s: 4},
	{k: kDec, base: "decimal", p: 4, s: 1},
	{k: kDec, base: "decimal", p: 5, s: 0},
	{k: kStr, base: "varchar", n: 2},
	{k: kStr, base: "varchar", n: 8},
	{k: kStr, base: "varchar", n: 8},
	{k: kStr, base: "varchar", n: 20},
}

// typ draws a type; a varchar gets the table default collation (implicit=true) or a drawn one.
func (g *gen) typ(tableColl string) (t ctype, implicit bool) {
	t = typePool[g.pick(len(typePool), "type")]
	if t.k == kStr {
		t.coll = tableColl
		implicit = true
		if g.chance(40, "explicitcoll") {
			t.coll = collations[g.pick(len(collations), "coll")]
			implicit = false
		}
	}
	return
}

var intPool = []int64{-3, -2, -1, 0, 1, 2, 3, 4, 9, 10, 127, -128, 128, -129, 300, 32767, 99999, 2147483647, -2147483648, 2147483648, 99999999999}
var strPool = []string{"", "a", "A", "á", "ab", "aB", "b", "a ", "10", "9", "-3", "0", "127", "128", "300", "1.50", "2.25", "-0.25", "12345678", "abcdefgh", "99999999999", "hello world", "2147483648"}

// value draws a value that fits type t (never NULL).
func (g *gen) value(t ctype) val {
	switch t.k {
	case kInt:
		lo, hi := intRange(t.base)
		for try := 0; try < 8; try++ {
			v := intPool[g.pick(len(intPool), "int")]
			if v >= lo && v <= hi {
				return intV(v)
			}
		}
		return intV(int64(rapid.IntRange(-3, 4).Draw(g.rt, "smallint")))
	case kDec:
		// multiples of the smallest quarter the scale can hold, small magnitudes, plus a value
		// near the top of the integer range of the type
		if g.chance(12, "decbig") {
			return decV((pow10(t.p-t.s)-1)*pow10(t.s)+pow10(t.s)/2*int64(min(t.s, 1)), t.s)
		}
		k := int64(rapid.IntRange(-8, 40).Draw(g.rt, "deck"))
		switch {
		case t.s >= 2:
			return decV(k*25*pow10(t.s-2), t.s)
		case t.s == 1:
			return decV(k*5, 1)
		}
		return decV(k, 0)
	}
	for try := 0; try < 8; try++ {
		s := strPool[g.pick(len(strPool), "str")]
		if len([]rune(s)) <= t.n {
			return strV(s)
		}
	}
	return strV("a")
}

func (g *gen) valueOrNull(c column) val {
	if !c.notNull && g.chance(20, "null") {
		return nullV()
	}
	return g.value(c.typ)
}

func (g *gen) defaultFor(c *column) {
	if g.chance(35, "hasdefault") {
		v := g.value(c.typ)
		c.def = &v
	}
}

// initial table
func (g *gen) table() *table {
	t := &table{name: "t0", coll: "utf8mb4_0900_bin"}
	if g.chance(25, "tablecoll") {
		t.coll = collations[g.pick(len(collations), "tcoll")]
	}
	ncols := rapid.IntRange(2, 5).Draw(g.rt, "ncols")
	for i := 0; i < ncols; i++ {
		c := column{name: g.freshCol()}
		c.typ, _ = g.typ(t.coll)
		c.notNull = g.chance(20, "notnull")
		g.defaultFor(&c)
		t.cols = append(t.cols, c)
	}
	// keys
	switch rapid.IntRange(0, 5).Draw(g.rt, "pkshape") {
	case 0, 1:
	case 2, 3:
		t.pk = []string{t.cols[g.pick(ncols, "pkcol")].name}
	default:
		t.pk = g.colSubset(t, 2)
	}
	for _, c := range t.pk {
		t.cols[t.colIdx(c)].notNull = true
	}
	for i, n := 0, rapid.IntRange(0, 2).Draw(g.rt, "nidx"); i < n; i++ {
		t.idx = append(t.idx, index{g.freshIdx(), g.colSubset(t, rapid.IntRange(1, 2).Draw(g.rt, "idxw")), g.chance(35, "unique")})
	}
	// rows; a row that would break a key (under the loose equality) is left out
	maxRows := 8
	if g.big {
		maxRows = 24
	}
	nrows := rapid.IntRange(0, maxRows).Draw(g.rt, "nrows")
	for i := 0; i < nrows; i++ {
		r := make([]val, ncols)
		for j, c := range t.cols {
			r[j] = g.valueOrNull(c)
		}
		t.rows = append(t.rows, r)
		if t.allKeysState() != keyOK {
			t.rows = t.rows[:len(t.rows)-1]
		}
	}
	return t
}

func (g *gen) colSubset(t *table, n int) []string {
	if n > len(t.cols) {
		n = len(t.cols)
	}
	perm := rapid.Permutation(colNames(t)).Draw(g.rt, "colperm")
	return perm[:n]
}

func colNames(t *table) []string {
	out := make([]string, len(t.cols))
	for i, c := range t.cols {
		out[i] = c.name
	}
	return out
}

func (g *gen) position(t *table, self string) position {
	switch rapid.IntRange(0, 5).Draw(g.rt, "pos") {
	case 0:
		return position{first: true}
	case 1, 2:
		c := t.cols[g.pick(len(t.cols), "after")].name
		if c != self {
			return position{after: c}
		}
	}
	return position{}
}

// targetType draws the new type for a MODIFY of column c, aimed by `aim`:
// 0 any type, 1 a type every stored value converts to exactly (widening), 2 a type some stored
// value certainly does not fit.
func (g *gen) targetType(t *table, at int, aim int) (ctype, bool) {
	for try := 0; try < 12; try++ {
		nt, implicit := g.typ(t.coll)
		if aim == 0 {
			return nt, implicit
		}
		anyUnrep, anyUndec := false, false
		for _, r := range t.rows {
			_, vd := convert(r[at], nt)
			anyUnrep = anyUnrep || vd == unrep
			anyUndec = anyUndec || vd == undecided
		}
		if aim == 1 && !anyUnrep && !anyUndec || aim == 2 && anyUnrep {
			return nt, implicit
		}
	}
	return g.typ(t.coll)
}

// step draws the next operation for the current table.
func (g *gen) step(t *table) op {
	k := rapid.IntRange(0, 99).Draw(g.rt, "op")
	switch {
	case k < 14: // ADD COLUMN
		c := column{name: g.freshCol()}
		if g.chance(5, "dupname") {
			c.name = t.cols[g.pick(len(t.cols), "dupcol")].name
		}
		var implicit bool
		c.typ, implicit = g.typ(t.coll)
		g.defaultFor(&c)
		if c.def != nil {
			c.notNull = g.chance(40, "notnull")
		}
		return opAddColumn{col: c, pos: g.position(t, ""), implicit: implicit}
	case k < 24: // DROP COLUMN
		return opDropColumn{t.cols[g.pick(len(t.cols), "dropcol")].name}
	case k < 54: // MODIFY / CHANGE
		at := g.pick(len(t.cols), "modcol")
		old := t.cols[at]
		c := column{name: old.name}
		var implicit bool
		c.typ, implicit = g.targetType(t, at, rapid.SampledFrom([]int{0, 1, 1, 1, 2, 2}).Draw(g.rt, "aim"))
		if g.chance(15, "sametype") {
			// only attributes / position / collation change
			c.typ = old.typ
			implicit = false
			if c.typ.k == kStr && g.chance(60, "newcoll") {
				c.typ.coll = collations[g.pick(len(collations), "coll2")]
			}
		}
		c.notNull = t.inPK(old.name) || g.chance(25, "notnull")
		g.defaultFor(&c)
		o := opModify{name: old.name, col: c, implicit: implicit}
		if g.chance(35, "change") {
			o.change = true
			if g.chance(70, "rename") {
				o.col.name = g.freshCol()
			}
		}
		if g.chance(30, "move") {
			o.pos = g.position(t, old.name)
		}
		return o
	case k < 60: // RENAME COLUMN
		o := opRenameColumn{from: t.cols[g.pick(len(t.cols), "rencol")].name, to: g.freshCol()}
		if g.chance(6, "rendup") {
			o.to = t.cols[g.pick(len(t.cols), "rento")].name
			if o.to == o.from {
				o.to = g.freshCol()
			}
		}
		return o
	case k < 68: // ADD PRIMARY KEY
		return opAddPK{g.colSubset(t, rapid.IntRange(1, 2).Draw(g.rt, "pkw"))}
	case k < 72:
		return opDropPK{}
	case k < 82: // ADD [UNIQUE] INDEX
		ix := index{g.freshIdx(), g.colSubset(t, rapid.IntRange(1, 2).Draw(g.rt, "idxw")), g.chance(50, "unique")}
		if len(t.idx) > 0 && g.chance(5, "dupidx") {
			ix.name = t.idx[g.pick(len(t.idx), "dupidxname")].name
		}
		return opAddIndex{ix}
	case k < 86: // DROP INDEX
		if len(t.idx) == 0 {
			return opDropIndex{"nosuch"}
		}
		return opDropIndex{t.idx[g.pick(len(t.idx), "dropidx")].name}
	case k < 90: // RENAME TABLE
		g.nextTbl++
		return opRenameTable{to: fmt.Sprintf("t%d", g.nextTbl), alter: g.chance(50, "alter")}
	case k < 93:
		return opTableCollate{collations[g.pick(len(collations), "tcoll2")]}
	case k < 98: // INSERT
		o := opInsert{}
		for _, c := range t.cols {
			if (c.def != nil || !c.notNull) && g.chance(30, "omit") {
				continue
			}
			o.cols = append(o.cols, c.name)
			o.vals = append(o.vals, g.valueOrNull(c))
		}
		if len(o.cols) == 0 {
			c := t.cols[0]
			o.cols, o.vals = []string{c.name}, []val{g.valueOrNull(c)}
		}
		return o
	default: // DELETE
		var cand []int
		for i, c := range t.cols {
			if c.typ.k != kStr {
				cand = append(cand, i)
			}
		}
		if len(cand) == 0 {
			return opDropPK{}
		}
		at := cand[g.pick(len(cand), "delcol")]
		o := opDelete{col: t.cols[at].name, v: nullV()}
		if len(t.rows) > 0 && g.chance(80, "delval") {
			o.v = t.rows[g.pick(len(t.rows), "delrow")][at]
		}
		return o
	}
}
