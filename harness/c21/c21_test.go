package c21

import (
	"fmt"
	"math/big"
	"os"
	"regexp"
	"sort"
	"strings"
	"testing"

	"github.com/dolthub/go-mysql-server/vh/internal/fx"
	"github.com/dolthub/go-mysql-server/vh/internal/kf"
	"github.com/dolthub/go-mysql-server/vh/internal/stats"
	"pgregory.net/rapid"
)

// ---------------------------------------------------------------------------------------
// one case

type runner struct {
	rt      *rapid.T
	st      *stats.Collector
	g       *gen
	f       *fx.Fixture
	s       *fx.Sess
	history []string
	t       *table
}

func (r *runner) fatalf(format string, args ...any) {
	msg := fmt.Sprintf(format, args...)
	r.rt.Fatalf("%s\n--- statements so far ---\n%s;;\n--- model ---\n%s", msg, strings.Join(r.history, ";;\n"), r.describeModel())
}

func (r *runner) describeModel() string {
	return r.t.createSQL() + "\nrows " + fx.Show(r.t.normRows())
}

// exec runs a statement that belongs to the case (recorded in the history).
func (r *runner) exec(q string) *fx.Result {
	r.history = append(r.history, q)
	res := r.s.Exec(q)
	if res.TimedOut {
		r.fatalf("statement timed out: %s", q)
	}
	return res
}

// read runs an observation query; it must succeed.
func (r *runner) read(q string) [][]string {
	res := r.s.Exec(q)
	if res.Panic != nil {
		r.fatalf("query panicked: %s\n  %v\n%s", q, res.Panic, trimStack(res.Stack))
	}
	if !res.OK() {
		r.fatalf("query failed: %s\n  %s", q, res)
	}
	return fx.NormRows(res.Schema, res.Rows)
}

func trimStack(s string) string {
	var keep []string
	for _, l := range strings.Split(s, "\n") {
		if strings.Contains(l, "/repo/") {
			keep = append(keep, strings.TrimSpace(l))
		}
		if len(keep) >= 8 {
			break
		}
	}
	return strings.Join(keep, "\n")
}

func runCase(rt *rapid.T, st *stats.Collector) {
	r := &runner{rt: rt, st: st}
	r.g = &gen{rt: rt, big: os.Getenv("VERIF_TIER") == "thorough"}
	r.t = r.g.table()
	r.f = fx.New(fx.Opts{})
	defer r.f.Close()
	r.s = r.f.NewSession("", "", "")

	if res := r.exec(r.t.createSQL()); !res.OK() {
		r.fatalf("set-up: CREATE TABLE failed: %s\n%s", res, res.Stack)
	}
	if len(r.t.rows) > 0 {
		var rows []string
		for _, row := range r.t.rows {
			rows = append(rows, rowLit(row))
		}
		if res := r.exec("INSERT INTO `" + r.t.name + "` VALUES " + strings.Join(rows, ", ")); !res.OK() {
			r.fatalf("set-up: INSERT failed: %s\n%s", res, res.Stack)
		}
	}
	r.verify("after set-up")

	rewrites, rejected, steps := 0, 0, 0
	nsteps := rapid.IntRange(1, 8).Draw(rt, "nsteps")
	for i := 0; i < nsteps; i++ {
		var o op
		var exp expect
		var next *table
		var why string
		for try := 0; try < 6; try++ {
			o = r.g.step(r.t)
			exp, next, why = o.apply(r.t)
			if exp == skip {
				st.Class("redraw-undecided-" + o.label())
				continue
			}
			for _, reg := range regions(o, r.t, next) {
				if kf.Listed(reg) {
					st.Excluded(reg)
					exp = skip
					break
				}
			}
			if exp != skip {
				break
			}
		}
		if exp == skip {
			continue
		}
		steps++
		before := r.showCreate()
		q := o.sql(r.t)
		res := r.exec(q)
		if res.Panic != nil {
			r.fatalf("statement panicked: %s\n  %v\n%s", q, res.Panic, trimStack(res.Stack))
		}
		st.Class("op-" + o.label())
		if exp == mustFail {
			st.Class("rejected-" + o.label())
			if res.Err == nil {
				r.fatalf("statement succeeded but must fail (%s): %s", why, q)
			}
			if _, isAlter := o.(opInsert); !isAlter {
				rejected++
			}
			if after := r.showCreate(); after != before {
				r.fatalf("the FAILED statement %s changed the schema:\nbefore: %s\nafter:  %s", q, before, after)
			}
			r.verify("after the FAILED statement " + q)
			continue
		}
		if res.Err != nil {
			r.fatalf("statement failed but must succeed: %s\n  %v", q, res.Err)
		}
		if rw := rewriting(o, r.t); rw && len(r.t.rows) >= 3 {
			rewrites++
			st.Class("rewrite>=3rows-" + o.label())
		}
		oldName := r.t.name
		r.t = next
		if oldName != next.name {
			if res := r.s.Exec("SELECT * FROM `" + oldName + "`"); res.Err == nil {
				r.fatalf("after %s the old table name still answers", q)
			}
		}
		r.verify("after " + q)
	}
	st.Class(fmt.Sprintf("steps-%d", min(steps, 4)))
	if rewrites >= 1 && rejected >= 1 {
		st.NonTrivial(map[string]any{"statements": r.history}, strings.Join(r.history, ";"))
	}
}

// rewriting says whether the operation forces the stored rows to be rewritten.
func rewriting(o op, t *table) bool {
	switch x := o.(type) {
	case opAddColumn:
		return x.pos.first || x.pos.after != "" && x.pos.after != t.cols[len(t.cols)-1].name
	case opDropColumn:
		return t.colIdx(x.name) < len(t.cols)-1
	case opModify:
		return x.col.typ.text() != t.cols[t.colIdx(x.name)].typ.text() || x.pos.first || x.pos.after != ""
	case opAddPK, opDropPK:
		return true
	}
	return false
}

// Finding ids (notes/C21.md, notes/C21.findings.json). While an id is listed as known, the
// operations of its region are not generated (counted in excluded_known); the replay witnesses
// re-confirm each finding.
const (
	fPkOrdinals     = "C21-pk-ordinals-shared"         // in-place change of a primary-key column / ADD COLUMN before one corrupts the key ordinals of older schema copies; later statements panic
	fDropUniqCol    = "C21-drop-unique-column-no-pk"   // DROP COLUMN of a member of a UNIQUE index on a table without primary key panics
	fDropPkColumn   = "C21-drop-pk-column"             // DROP COLUMN of a member of the primary key panics
	fRewriteIdx     = "C21-rewrite-index-exprs"        // MODIFY/CHANGE that rewrites the table: a renamed column leaves its indexes, a changed type is not propagated to them
	fAddColIdx      = "C21-add-column-index-positions" // ADD COLUMN before an indexed column: the index keeps reading the old position for new rows
	fAddUnique      = "C21-add-unique-key-schema"      // ADD UNIQUE over columns that are not the table's leading columns checks the key values against the wrong column types
	fPkOrder        = "C21-rename-pk-column-order"     // renaming a non-first primary-key column moves it to the front of the key
	fStaleIdxTbl    = "C21-index-pk-suffix-stale"      // a rewrite that moves a primary-key column leaves the secondary indexes reading the key from the old position
	fRenameTbl      = "C21-rename-table-index-exprs"   // RENAME TABLE renumbers the index expressions 0,1,.. instead of keeping the column positions
	fEmptyString    = "C21-empty-string-to-number"     // MODIFY of a VARCHAR column holding '' to a numeric type succeeds and stores 0
	fModifyIdxStore = "C21-modify-index-storage-stale" // in-place MODIFY of the type of an indexed column leaves the index storage holding values of the old type
)

func pkPositions(t *table) string {
	var out []string
	for _, c := range t.pk {
		out = append(out, fmt.Sprint(t.colIdx(c)))
	}
	return strings.Join(out, ",")
}

func inAnyIndex(t *table, col string) bool {
	for _, ix := range t.idx {
		for _, c := range ix.cols {
			if c == col {
				return true
			}
		}
	}
	return false
}

// regions names the known-finding regions an operation falls into. next is the table the
// reference model expects after the operation (nil when it must fail).
func regions(o op, t *table, next *table) []string {
	var out []string
	pkMoves := next != nil && pkPositions(t) != pkPositions(next)
	switch x := o.(type) {
	case opDropColumn:
		if t.inPK(x.name) {
			out = append(out, fDropPkColumn)
		} else if len(t.pk) == 0 && t.inUnique(x.name) {
			out = append(out, fDropUniqCol)
		}
		if pkMoves && len(t.idx) > 0 {
			out = append(out, fStaleIdxTbl)
		}
	case opAddColumn:
		at := len(t.cols)
		if next != nil {
			at = next.colIdx(x.col.name)
		}
		if pkMoves {
			out = append(out, fPkOrdinals)
		}
		for _, ix := range t.idx {
			for _, c := range ix.cols {
				if t.colIdx(c) >= at {
					out = append(out, fAddColIdx)
				}
			}
		}
		if pkMoves && len(t.idx) > 0 {
			out = append(out, fStaleIdxTbl)
		}
	case opModify:
		at := t.colIdx(x.name)
		if at < 0 {
			break
		}
		old := t.cols[at]
		moved := next != nil && next.colIdx(x.col.name) != at
		rewritten := moved || !old.notNull && x.col.notNull
		if t.inPK(x.name) && !rewritten {
			out = append(out, fPkOrdinals)
		}
		if t.inPK(x.name) && x.col.name != x.name && t.pk[0] != x.name {
			out = append(out, fPkOrder)
		}
		typeChanged := x.col.typ.text() != old.typ.text() || x.col.typ.coll != old.typ.coll
		if rewritten && inAnyIndex(t, x.name) && (x.col.name != x.name || typeChanged) {
			out = append(out, fRewriteIdx)
		}
		if rewritten && x.col.name != x.name && len(t.pk) == 0 && t.inUnique(x.name) {
			// the rewrite no longer finds the column of the unique index under its old name
			out = append(out, fDropUniqCol)
		}
		if pkMoves && len(t.idx) > 0 {
			out = append(out, fStaleIdxTbl)
		}
		if !rewritten && inAnyIndex(t, x.name) && typeChanged {
			out = append(out, fModifyIdxStore)
		}
		if x.col.typ.k != kStr {
			for _, r := range t.rows {
				if r[at].isZeroLenStr() {
					out = append(out, fEmptyString)
					break
				}
			}
		}
	case opRenameColumn:
		if t.inPK(x.from) {
			out = append(out, fPkOrdinals)
			if t.pk[0] != x.from {
				out = append(out, fPkOrder)
			}
		}
	case opAddPK, opDropPK:
		if pkMoves && len(t.idx) > 0 {
			out = append(out, fStaleIdxTbl)
		}
	case opAddIndex:
		if x.ix.unique {
			for i, c := range x.ix.cols {
				if t.colIdx(c) != i {
					out = append(out, fAddUnique)
					break
				}
			}
		}
	case opRenameTable:
		for _, ix := range t.idx {
			for i, c := range ix.cols {
				if t.colIdx(c) != i {
					out = append(out, fRenameTbl)
				}
			}
		}
	}
	return out
}

// ---------------------------------------------------------------------------------------
// observations

func (r *runner) showCreate() string {
	rows := r.read("SHOW CREATE TABLE `" + r.t.name + "`")
	if len(rows) != 1 || len(rows[0]) != 2 {
		r.fatalf("SHOW CREATE TABLE returned %s", fx.Show(rows))
	}
	return strings.TrimPrefix(rows[0][1], "s:")
}

func (r *runner) verify(when string) {
	t := r.t
	// 1. contents
	res := r.s.Exec("SELECT * FROM `" + t.name + "`")
	if res.Panic != nil {
		r.fatalf("%s: SELECT * panicked: %v\n%s", when, res.Panic, trimStack(res.Stack))
	}
	if !res.OK() {
		r.fatalf("%s: SELECT * failed: %s", when, res)
	}
	var gotNames []string
	for _, c := range res.Schema {
		gotNames = append(gotNames, c.Name)
	}
	if strings.Join(gotNames, ",") != strings.Join(colNames(t), ",") {
		r.fatalf("%s: SELECT * has columns %v, reference %v", when, gotNames, colNames(t))
	}
	got := fx.NormRows(res.Schema, res.Rows)
	if !fx.MultisetEqual(got, t.normRows()) {
		r.fatalf("%s: table contents are\n  %s\nreference\n  %s", when, fx.Show(got), fx.Show(t.normRows()))
	}
	// 2. schema reports
	r.verifyDescribe(when)
	r.verifyInfoSchema(when)
	r.verifyShowCreate(when)
	// 3. index lookups against an index-free copy
	r.verifyLookups(when)
}

func isYes(notNull bool) string {
	if notNull {
		return "s:NO"
	}
	return "s:YES"
}

// defaultMatches compares a reported default (normalised cell) with the model's.
func defaultMatches(cell string, c column) bool {
	if c.def == nil || c.def.null {
		return cell == "N" || cell == "s:NULL"
	}
	if !strings.HasPrefix(cell, "s:") {
		return false
	}
	txt := strings.TrimPrefix(cell, "s:")
	if c.typ.k == kStr {
		// (the engine prints some string defaults in quotes; a matter of display)
		return txt == c.def.s || txt == "'"+strings.ReplaceAll(c.def.s, "'", "''")+"'"
	}
	got, ok := new(big.Rat).SetString(txt)
	return ok && got.Cmp(c.def.rat()) == 0
}

func (r *runner) verifyDescribe(when string) {
	t := r.t
	rows := r.read("DESCRIBE `" + t.name + "`")
	if len(rows) != len(t.cols) {
		r.fatalf("%s: DESCRIBE lists %d columns, reference %d: %s", when, len(rows), len(t.cols), fx.Show(rows))
	}
	for i, c := range t.cols {
		row := rows[i]
		typ := strings.TrimPrefix(row[1], "s:")
		if j := strings.Index(typ, " "); j >= 0 {
			typ = typ[:j] // the engine appends the collation; not compared here
		}
		// (a NOT NULL unique key is also shown as PRI when there is no primary key, as in MySQL, so
		// only "member of the primary key => PRI" is required; STATISTICS and SHOW CREATE are exact)
		pri := row[3] == "s:PRI"
		if row[0] != "s:"+c.name || typ != c.typ.text() || row[2] != isYes(c.notNull) || t.inPK(c.name) && !pri || !defaultMatches(row[4], c) {
			r.fatalf("%s: DESCRIBE row %d is %v, reference column %s %s notnull=%v pk=%v default=%v", when, i, row, c.name, c.typ.text(), c.notNull, t.inPK(c.name), showDef(c))
		}
	}
}

func showDef(c column) string {
	if c.def == nil {
		return "none"
	}
	return c.def.lit()
}

func (r *runner) verifyInfoSchema(when string) {
	t := r.t
	rows := r.read("SELECT COLUMN_NAME, ORDINAL_POSITION, COLUMN_TYPE, IS_NULLABLE, COLUMN_KEY, COLLATION_NAME, COLUMN_DEFAULT FROM information_schema.COLUMNS WHERE TABLE_SCHEMA = 'd' AND TABLE_NAME = '" + t.name + "' ORDER BY ORDINAL_POSITION")
	if len(rows) != len(t.cols) {
		r.fatalf("%s: information_schema.COLUMNS lists %d columns, reference %d: %s", when, len(rows), len(t.cols), fx.Show(rows))
	}
	for i, c := range t.cols {
		row := rows[i]
		coll := "N"
		if c.typ.k == kStr {
			coll = "s:" + c.typ.coll
		}
		if row[0] != "s:"+c.name || row[1] != fmt.Sprintf("n:%d", i+1) || row[2] != "s:"+c.typ.text() || row[3] != isYes(c.notNull) ||
			t.inPK(c.name) && row[4] != "s:PRI" || row[5] != coll || !defaultMatches(row[6], c) {
			r.fatalf("%s: information_schema.COLUMNS row %d is %v, reference column %s %s notnull=%v pk=%v collation=%s default=%v", when, i, row, c.name, c.typ.text(), c.notNull, t.inPK(c.name), coll, showDef(c))
		}
	}
	got := r.read("SELECT INDEX_NAME, SEQ_IN_INDEX, COLUMN_NAME, NON_UNIQUE FROM information_schema.STATISTICS WHERE TABLE_SCHEMA = 'd' AND TABLE_NAME = '" + t.name + "'")
	var want [][]string
	add := func(name string, cols []string, unique bool) {
		nu := "n:1"
		if unique {
			nu = "n:0"
		}
		for i, c := range cols {
			want = append(want, []string{"s:" + name, fmt.Sprintf("n:%d", i+1), "s:" + c, nu})
		}
	}
	if len(t.pk) > 0 {
		add("PRIMARY", t.pk, true)
	}
	for _, ix := range t.idx {
		add(ix.name, ix.cols, ix.unique)
	}
	if !fx.MultisetEqual(got, want) {
		r.fatalf("%s: information_schema.STATISTICS (index, seq, column, non_unique) is\n  %s\nreference\n  %s", when, fx.Show(got), fx.Show(want))
	}
}

// parsed form of SHOW CREATE TABLE
type shownTable struct {
	name string
	coll string
	cols []shownCol
	pk   []string
	idx  map[string]index
}

type shownCol struct {
	name, typ, coll string
	notNull         bool
	hasDef          bool
	def             string
}

var (
	reColLine = regexp.MustCompile("^`([^`]+)` ([a-z]+(?:\\([0-9,]+\\))?)(.*)$")
	reKeyLine = regexp.MustCompile("^(PRIMARY KEY|UNIQUE KEY|KEY)(?: `([^`]+)`)? \\(([^)]*)\\)$")
	reTail    = regexp.MustCompile(`COLLATE=([a-z0-9_]+)`)
	reCollate = regexp.MustCompile(` COLLATE ([a-z0-9_]+)`)
	reDefault = regexp.MustCompile(` DEFAULT (?:'((?:[^']|'')*)'|([^ ]+))`)
)

func parseShowCreate(s string) (*shownTable, error) {
	lines := strings.Split(s, "\n")
	if len(lines) < 3 {
		return nil, fmt.Errorf("too few lines")
	}
	out := &shownTable{idx: map[string]index{}}
	h := strings.TrimSuffix(strings.TrimPrefix(lines[0], "CREATE TABLE `"), "` (")
	out.name = h
	last := lines[len(lines)-1]
	m := reTail.FindStringSubmatch(last)
	if !strings.HasPrefix(last, ")") || m == nil {
		return nil, fmt.Errorf("no table collation in %q", last)
	}
	out.coll = m[1]
	for _, l := range lines[1 : len(lines)-1] {
		l = strings.TrimSuffix(strings.TrimSpace(l), ",")
		if m := reColLine.FindStringSubmatch(l); m != nil {
			c := shownCol{name: m[1], typ: m[2], coll: out.coll}
			rest := m[3]
			if d := reDefault.FindStringSubmatch(rest); d != nil {
				c.hasDef = true
				c.def = strings.ReplaceAll(d[1], "''", "'")
				if d[2] != "" {
					c.def = d[2]
				}
				rest = strings.Replace(rest, d[0], "", 1)
			}
			if cm := reCollate.FindStringSubmatch(rest); cm != nil {
				c.coll = cm[1]
			}
			c.notNull = strings.Contains(rest, " NOT NULL")
			out.cols = append(out.cols, c)
			continue
		}
		if m := reKeyLine.FindStringSubmatch(l); m != nil {
			var cols []string
			for _, c := range strings.Split(m[3], ",") {
				cols = append(cols, strings.Trim(c, "`"))
			}
			if m[1] == "PRIMARY KEY" {
				out.pk = cols
			} else {
				out.idx[m[2]] = index{m[2], cols, m[1] == "UNIQUE KEY"}
			}
			continue
		}
		return nil, fmt.Errorf("unrecognised line %q", l)
	}
	return out, nil
}

func (r *runner) verifyShowCreate(when string) {
	t := r.t
	txt := r.showCreate()
	sh, err := parseShowCreate(txt)
	if err != nil {
		r.fatalf("%s: cannot read SHOW CREATE TABLE (%v):\n%s", when, err, txt)
	}
	bad := func(what string) {
		r.fatalf("%s: SHOW CREATE TABLE disagrees with the reference schema on %s:\n%s", when, what, txt)
	}
	if sh.name != t.name {
		bad("the table name")
	}
	if sh.coll != t.coll {
		bad("the table collation (reference " + t.coll + ")")
	}
	if len(sh.cols) != len(t.cols) {
		bad("the number of columns")
	}
	for i, c := range t.cols {
		s := sh.cols[i]
		if s.name != c.name || s.typ != c.typ.text() || s.notNull != c.notNull {
			bad(fmt.Sprintf("column %d (reference %s %s notnull=%v)", i, c.name, c.typ.text(), c.notNull))
		}
		if c.typ.k == kStr && s.coll != c.typ.coll {
			bad(fmt.Sprintf("the collation of column %s (reference %s)", c.name, c.typ.coll))
		}
		cell := "N"
		if s.hasDef && s.def != "NULL" {
			cell = "s:" + s.def
		}
		if !defaultMatches(cell, c) {
			bad(fmt.Sprintf("the default of column %s (reference %s)", c.name, showDef(c)))
		}
	}
	if strings.Join(sh.pk, ",") != strings.Join(t.pk, ",") {
		bad(fmt.Sprintf("the primary key (reference %v)", t.pk))
	}
	if len(sh.idx) != len(t.idx) {
		bad(fmt.Sprintf("the set of indexes (reference %v)", t.idx))
	}
	for _, ix := range t.idx {
		s, ok := sh.idx[ix.name]
		if !ok || s.unique != ix.unique || strings.Join(s.cols, ",") != strings.Join(ix.cols, ",") {
			bad(fmt.Sprintf("index %s (reference %v unique=%v)", ix.name, ix.cols, ix.unique))
		}
	}
}

// verifyLookups compares WHERE lookups on the leading columns of every key of the table with
// the same queries on a freshly built copy of the reference rows that has no key at all.
func (r *runner) verifyLookups(when string) {
	t := r.t
	keys := [][]string{}
	if len(t.pk) > 0 {
		keys = append(keys, t.pk)
	}
	for _, ix := range t.idx {
		keys = append(keys, ix.cols)
	}
	if len(keys) == 0 {
		return
	}
	// the copy
	var defs []string
	for _, c := range t.cols {
		defs = append(defs, "`"+c.name+"` "+c.typ.ddl(true))
	}
	setup := []string{"DROP TABLE IF EXISTS nf", "CREATE TABLE nf (" + strings.Join(defs, ", ") + ")"}
	if len(t.rows) > 0 {
		var rows []string
		for _, row := range t.rows {
			rows = append(rows, rowLit(row))
		}
		setup = append(setup, "INSERT INTO nf VALUES "+strings.Join(rows, ", "))
	}
	for _, q := range setup {
		if res := r.s.Exec(q); !res.OK() {
			r.fatalf("%s: building the index-free copy failed: %s -> %s\n%s", when, q, res, res.Stack)
		}
	}
	var preds []string
	for _, key := range keys {
		c0 := t.cols[t.colIdx(key[0])]
		at0 := t.colIdx(key[0])
		seen := map[string]bool{}
		var vals []val
		for _, row := range t.rows {
			if v := row[at0]; !v.null && !seen[v.norm()] && len(vals) < 3 {
				seen[v.norm()] = true
				vals = append(vals, v)
			}
		}
		vals = append(vals, r.g.value(c0.typ))
		q0 := "`" + c0.name + "`"
		for _, v := range vals {
			preds = append(preds, q0+" = "+v.lit())
		}
		pv := vals[rapid.IntRange(0, len(vals)-1).Draw(r.rt, "rangeval")]
		preds = append(preds, q0+" "+rapid.SampledFrom([]string{"<", "<=", ">", ">="}).Draw(r.rt, "rangeop")+" "+pv.lit())
		if !c0.notNull {
			preds = append(preds, q0+" IS NULL")
		}
		if len(key) > 1 && len(t.rows) > 0 {
			at1 := t.colIdx(key[1])
			row := t.rows[rapid.IntRange(0, len(t.rows)-1).Draw(r.rt, "row2")]
			if !row[at0].null && !row[at1].null {
				preds = append(preds, q0+" = "+row[at0].lit()+" AND `"+key[1]+"` = "+row[at1].lit())
				preds = append(preds, q0+" = "+row[at0].lit()+" AND `"+key[1]+"` >= "+row[at1].lit())
			}
		}
	}
	usedIndex := false
	for _, p := range preds {
		qt := "SELECT * FROM `" + t.name + "` WHERE " + p
		a := r.s.Exec(qt)
		if a.Panic != nil {
			r.fatalf("%s: lookup panicked: %s\n  %v\n%s", when, qt, a.Panic, trimStack(a.Stack))
		}
		b := r.s.Exec("SELECT * FROM nf WHERE " + p)
		if !b.OK() {
			r.fatalf("%s: lookup on the index-free copy failed: %s -> %s", when, p, b)
		}
		if !a.OK() {
			r.fatalf("%s: lookup failed: %s -> %s (the index-free copy answers %s)", when, qt, a, b)
		}
		ra, rb := fx.NormRows(a.Schema, a.Rows), fx.NormRows(b.Schema, b.Rows)
		if !fx.MultisetEqual(ra, rb) {
			r.fatalf("%s: lookup %s returns\n  %s\nthe index-free copy of the same rows returns\n  %s\nplan: %s", when, qt, fx.Show(ra), fx.Show(rb), r.s.Plan(qt))
		}
		if !usedIndex && strings.Contains(r.s.Plan(qt), "IndexedTableAccess") {
			usedIndex = true
		}
	}
	if usedIndex {
		r.st.Class("lookup-through-index")
	} else {
		r.st.Class("lookup-no-index-chosen")
	}
}

// ---------------------------------------------------------------------------------------

func TestC21(t *testing.T) {
	st := stats.New("C21", "")
	defer st.Flush()
	rapid.Check(t, func(rt *rapid.T) {
		st.Eval()
		runCase(rt, st)
	})
}

// TestReplayC21 runs the SQL witness scripts of /verif/replays/C21.
func TestReplayC21(t *testing.T) {
	st := stats.New("C21", "replay")
	defer st.Flush()
	fx.ReplayDir(t, st)
}

var _ = sort.Strings
