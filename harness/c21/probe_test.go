package c21

import (
	"fmt"
	"os"
	"strings"
	"testing"

	"github.com/dolthub/go-mysql-server/vh/internal/fx"
)

// TestProbe runs the ';;'-separated statements of $PROBE_SQL (a file) and prints results.
func TestProbe(t *testing.T) {
	p := os.Getenv("PROBE_SQL")
	if p == "" {
		t.Skip()
	}
	b, _ := os.ReadFile(p)
	f := fx.New(fx.Opts{})
	defer f.Close()
	s := f.NewSession("", "", "")
	for _, q := range strings.Split(string(b), ";;") {
		q = strings.TrimSpace(q)
		if q == "" {
			continue
		}
		if q == "RESET" {
			f.Close()
			f = fx.New(fx.Opts{})
			s = f.NewSession("", "", "")
			fmt.Println("---- reset")
			continue
		}
		r := s.Exec(q)
		fmt.Printf("%s\n   => %s\n", q, r)
		if r.Panic != nil {
			fmt.Println(r.Stack)
		}
	}
}
