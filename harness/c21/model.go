// Package c21 checks property C21: ALTER TABLE operations keep every existing row's values for
// the retained columns, converted to the new types when representable; otherwise the statement
// fails without effect; DESCRIBE, SHOW and information_schema then report the new schema.
//
// model.go: the reference model - column types, values, the conversion relation (exact /
// unrepresentable / not decided by the property), the table with its keys, and the effect of
// every generated operation.
package c21

import (
	"fmt"
	"math/big"
	"regexp"
	"strconv"
	"strings"
	"unicode/utf8"
)

// ---------------------------------------------------------------------------------------
// types

type kind uint8

const (
	kInt kind = iota
	kDec
	kStr
)

// ctype is a column type of the pool.
type ctype struct {
	k    kind
	base string // tinyint | smallint | int | bigint | decimal | varchar
	p, s int    // decimal(p,s)
	n    int    // varchar(n)
	coll string // varchar: resolved collation (never empty in the model)
}

func (t ctype) text() string { // as DESCRIBE / COLUMN_TYPE / SHOW CREATE print it
	switch t.k {
	case kDec:
		return fmt.Sprintf("decimal(%d,%d)", t.p, t.s)
	case kStr:
		return fmt.Sprintf("varchar(%d)", t.n)
	}
	return t.base
}

// ddl renders the type in a column definition; explicitColl adds the COLLATE clause.
func (t ctype) ddl(explicitColl bool) string {
	s := strings.ToUpper(t.text())
	if t.k == kStr && explicitColl {
		s += " COLLATE " + t.coll
	}
	return s
}

func intRange(base string) (lo, hi int64) {
	switch base {
	case "tinyint":
		return -128, 127
	case "smallint":
		return -32768, 32767
	case "int":
		return -2147483648, 2147483647
	}
	return -9223372036854775808, 9223372036854775807
}

// ---------------------------------------------------------------------------------------
// values

// val is one stored value: NULL, an integer, a decimal (unscaled integer u at scale sc) or a string.
type val struct {
	null bool
	k    kind
	i    int64 // kInt: the value; kDec: the unscaled value
	sc   int   // kDec: scale
	s    string
}

func nullV() val               { return val{null: true} }
func intV(i int64) val         { return val{k: kInt, i: i} }
func decV(u int64, sc int) val { return val{k: kDec, i: u, sc: sc} }
func strV(s string) val        { return val{k: kStr, s: s} }
func pow10(n int) int64 {
	r := int64(1)
	for ; n > 0; n-- {
		r *= 10
	}
	return r
}
func (v val) rat() *big.Rat      { return big.NewRat(v.i, pow10(v.sc)) }
func (v val) same(w val) bool    { return v.norm() == w.norm() }
func (v val) isZeroLenStr() bool { return !v.null && v.k == kStr && v.s == "" }

// norm is the canonical form fx.NormRows produces for the same value.
func (v val) norm() string {
	if v.null {
		return "N"
	}
	switch v.k {
	case kInt:
		return "n:" + strconv.FormatInt(v.i, 10)
	case kDec:
		return "n:" + v.rat().RatString()
	}
	return "s:" + v.s
}

// decText prints a decimal with exactly its scale ("-0.25", "2.00", "7").
func decText(u int64, sc int) string {
	neg := u < 0
	if neg {
		u = -u
	}
	s := strconv.FormatInt(u, 10)
	if sc > 0 {
		for len(s) <= sc {
			s = "0" + s
		}
		s = s[:len(s)-sc] + "." + s[len(s)-sc:]
	}
	if neg {
		s = "-" + s
	}
	return s
}

// lit renders the value as an SQL literal of its own type.
func (v val) lit() string {
	if v.null {
		return "NULL"
	}
	switch v.k {
	case kInt:
		return strconv.FormatInt(v.i, 10)
	case kDec:
		return decText(v.i, v.sc)
	}
	return "'" + strings.ReplaceAll(v.s, "'", "''") + "'"
}

// text is the character form of the value (what a conversion to VARCHAR must store).
func (v val) text() string {
	switch v.k {
	case kInt:
		return strconv.FormatInt(v.i, 10)
	case kDec:
		return decText(v.i, v.sc)
	}
	return v.s
}

// ---------------------------------------------------------------------------------------
// conversion relation

type verdict uint8

const (
	exact     verdict = iota // the value is representable in the new type: it must be kept, converted
	unrep                    // not representable: the statement must fail
	undecided                // MySQL rounds / trims / the property does not say: not generated
)

var (
	reInt = regexp.MustCompile(`^(0|-?[1-9][0-9]{0,17})$`)
	reDec = regexp.MustCompile(`^-?(0|[1-9][0-9]{0,15})(\.[0-9]{1,6})?$`)
	// a string without any numeric prefix: strict mode rejects it for every numeric type
	reNoNumber = regexp.MustCompile(`^[^0-9+\-. \t]`)
)

func fitsDec(u int64, sc int, t ctype) bool { // value u/10^sc already at scale t.s
	lim := pow10(t.p)
	return u > -lim && u < lim
}

// convert gives the value v must have after its column changed to type t.
func convert(v val, t ctype) (val, verdict) {
	if v.null {
		return v, exact
	}
	switch t.k {
	case kInt:
		lo, hi := intRange(t.base)
		switch v.k {
		case kInt:
			if v.i < lo || v.i > hi {
				return v, unrep
			}
			return v, exact
		case kDec:
			d := pow10(v.sc)
			if v.i%d != 0 {
				return v, undecided // MySQL rounds
			}
			q := v.i / d
			if q < lo || q > hi {
				return v, unrep
			}
			return intV(q), exact
		default:
			if reInt.MatchString(v.s) && v.s != "-0" {
				q, _ := strconv.ParseInt(v.s, 10, 64)
				if q < lo || q > hi {
					return v, unrep
				}
				return intV(q), exact
			}
			if v.s == "" || reNoNumber.MatchString(v.s) {
				return v, unrep
			}
			return v, undecided
		}
	case kDec:
		switch v.k {
		case kInt:
			if v.i <= -pow10(t.p-t.s) || v.i >= pow10(t.p-t.s) {
				return v, unrep
			}
			return decV(v.i*pow10(t.s), t.s), exact
		case kDec:
			return rescale(v.i, v.sc, t)
		default:
			if reDec.MatchString(v.s) {
				sc := 0
				digits := v.s
				if i := strings.IndexByte(v.s, '.'); i >= 0 {
					sc = len(v.s) - i - 1
					digits = v.s[:i] + v.s[i+1:]
				}
				u, err := strconv.ParseInt(digits, 10, 64)
				if err != nil || u == 0 && strings.HasPrefix(v.s, "-") {
					return v, undecided
				}
				return rescale(u, sc, t)
			}
			if v.s == "" || reNoNumber.MatchString(v.s) {
				return v, unrep
			}
			return v, undecided
		}
	default:
		s := v.text()
		n := utf8.RuneCountInString(s)
		if n <= t.n {
			return strV(s), exact
		}
		// only trailing spaces do not fit: MySQL trims them with a note
		r := []rune(s)
		if strings.TrimRight(string(r[t.n:]), " ") == "" {
			return v, undecided
		}
		return v, unrep
	}
}

func rescale(u int64, sc int, t ctype) (val, verdict) {
	if u > 1e12 || u < -1e12 {
		return val{}, undecided // outside what the generators produce; keeps the arithmetic in int64
	}
	intPart := u / pow10(sc)
	if intPart <= -pow10(t.p-t.s) || intPart >= pow10(t.p-t.s) {
		return val{}, unrep // the integer digits do not fit, whatever rounding does
	}
	if t.s >= sc {
		if t.s-sc > 6 {
			return val{}, undecided
		}
		nu := u * pow10(t.s-sc)
		if !fitsDec(nu, t.s, t) {
			return val{}, unrep
		}
		return decV(nu, t.s), exact
	}
	d := pow10(sc - t.s)
	if u%d != 0 {
		return val{}, undecided // rounding
	}
	return decV(u/d, t.s), exact
}

// ---------------------------------------------------------------------------------------
// collations of the pool and a deliberately loose equality: two strings that are not
// loose-equal are different under every collation of the pool; two byte-identical strings are
// equal under every collation. Anything in between is not decided by this model.

var collations = []string{"utf8mb4_0900_bin", "utf8mb4_0900_ai_ci", "utf8mb4_general_ci"}

func looseFold(s string) string {
	s = strings.ToLower(strings.TrimRight(s, " "))
	return strings.NewReplacer("á", "a", "Á", "a").Replace(s)
}

func (v val) looseKey() string {
	if !v.null && v.k == kStr {
		return "s:" + looseFold(v.s)
	}
	return v.norm()
}

// ---------------------------------------------------------------------------------------
// table

type column struct {
	name    string
	typ     ctype
	notNull bool
	def     *val // nil: no DEFAULT clause
}

// ddl renders the column definition. A varchar's collation is written out unless it equals
// tableColl and implicit is set (then the engine must pick the table default).
func (c column) ddl(tableColl string, implicit bool) string {
	s := "`" + c.name + "` " + c.typ.ddl(!(implicit && c.typ.coll == tableColl))
	if c.notNull {
		s += " NOT NULL"
	}
	if c.def != nil {
		s += " DEFAULT " + c.def.lit()
	}
	return s
}

type index struct {
	name   string
	cols   []string
	unique bool
}

type table struct {
	name string
	coll string // table default collation
	cols []column
	pk   []string
	idx  []index
	rows [][]val
}

func (t *table) clone() *table {
	c := &table{name: t.name, coll: t.coll}
	c.cols = append([]column(nil), t.cols...)
	c.pk = append([]string(nil), t.pk...)
	for _, ix := range t.idx {
		c.idx = append(c.idx, index{ix.name, append([]string(nil), ix.cols...), ix.unique})
	}
	for _, r := range t.rows {
		c.rows = append(c.rows, append([]val(nil), r...))
	}
	return c
}

func (t *table) colIdx(name string) int {
	for i, c := range t.cols {
		if c.name == name {
			return i
		}
	}
	return -1
}

func (t *table) inPK(name string) bool {
	for _, c := range t.pk {
		if c == name {
			return true
		}
	}
	return false
}

func (t *table) inUnique(name string) bool {
	if t.inPK(name) {
		return true
	}
	for _, ix := range t.idx {
		if ix.unique {
			for _, c := range ix.cols {
				if c == name {
					return true
				}
			}
		}
	}
	return false
}

func (t *table) indexNames() map[string]bool {
	m := map[string]bool{}
	for _, ix := range t.idx {
		m[ix.name] = true
	}
	return m
}

func (t *table) createSQL() string {
	var parts []string
	for _, c := range t.cols {
		parts = append(parts, c.ddl(t.coll, true))
	}
	if len(t.pk) > 0 {
		parts = append(parts, "PRIMARY KEY ("+quoteList(t.pk)+")")
	}
	for _, ix := range t.idx {
		k := "KEY"
		if ix.unique {
			k = "UNIQUE KEY"
		}
		parts = append(parts, k+" `"+ix.name+"` ("+quoteList(ix.cols)+")")
	}
	return "CREATE TABLE `" + t.name + "` (" + strings.Join(parts, ", ") + ") COLLATE " + t.coll
}

func quoteList(cols []string) string {
	out := make([]string, len(cols))
	for i, c := range cols {
		out[i] = "`" + c + "`"
	}
	return strings.Join(out, ",")
}

func rowLit(r []val) string {
	out := make([]string, len(r))
	for i, v := range r {
		out[i] = v.lit()
	}
	return "(" + strings.Join(out, ", ") + ")"
}

func (t *table) normRows() [][]string {
	out := make([][]string, len(t.rows))
	for i, r := range t.rows {
		out[i] = make([]string, len(r))
		for j, v := range r {
			out[i][j] = v.norm()
		}
	}
	return out
}

// keyState says whether the rows satisfy a key over cols: ok (no two rows can be equal under
// any collation of the pool), dup (two rows are byte-identical on the key, or - for a primary
// key - a NULL is present), or undecidedKey.
type keyState uint8

const (
	keyOK keyState = iota
	keyDup
	keyUndecided
)

func (t *table) keyState(cols []string, primary bool) keyState {
	return keyStateOf(t, t.rows, cols, primary)
}

func keyStateOf(t *table, rows [][]val, cols []string, primary bool) keyState {
	var ci []int
	for _, c := range cols {
		ci = append(ci, t.colIdx(c))
	}
	exactSeen := map[string]bool{}
	looseSeen := map[string]bool{}
	concatSeen := map[string]bool{} // region of C14's row-key finding: key parts printed without separator
	res := keyOK
	for _, r := range rows {
		hasNull := false
		var ek, lk []string
		for _, i := range ci {
			if r[i].null {
				hasNull = true
			}
			ek = append(ek, r[i].norm())
			lk = append(lk, r[i].looseKey())
		}
		if hasNull {
			if primary {
				return keyDup
			}
			continue // NULLs never conflict in a unique key
		}
		e, l := strings.Join(ek, "\x00"), strings.Join(lk, "\x00")
		if exactSeen[e] {
			return keyDup
		}
		var ck string
		for _, i := range ci {
			ck += r[i].text()
		}
		if looseSeen[l] || len(ci) > 1 && concatSeen[ck] {
			res = keyUndecided
		}
		exactSeen[e], looseSeen[l], concatSeen[ck] = true, true, true
	}
	return res
}

// uniqueKeys lists the column sets that must stay unique (primary key first).
func (t *table) uniqueKeys() (keys [][]string, primary []bool) {
	if len(t.pk) > 0 {
		keys, primary = append(keys, t.pk), append(primary, true)
	}
	for _, ix := range t.idx {
		if ix.unique {
			keys, primary = append(keys, ix.cols), append(primary, false)
		}
	}
	return
}

// allKeysState combines keyState over every unique key of the table.
func (t *table) allKeysState() keyState {
	res := keyOK
	keys, prim := t.uniqueKeys()
	for i, k := range keys {
		switch t.keyState(k, prim[i]) {
		case keyDup:
			return keyDup
		case keyUndecided:
			res = keyUndecided
		}
	}
	return res
}

// ---------------------------------------------------------------------------------------
// operations

// expectation of one generated statement
type expect uint8

const (
	mustSucceed expect = iota
	mustFail
	skip // the outcome is not decided by the property (the generator draws something else)
)

type op interface {
	sql(t *table) string
	// apply returns what the statement must do and, for mustSucceed, the table afterwards.
	apply(t *table) (expect, *table, string)
	label() string
}

func removeStr(l []string, s string) []string {
	var out []string
	for _, x := range l {
		if x != s {
			out = append(out, x)
		}
	}
	return out
}

func replaceStr(l []string, from, to string) {
	for i := range l {
		if l[i] == from {
			l[i] = to
		}
	}
}

// position of a new / moved column
type position struct {
	first bool
	after string
}

func (p position) sql() string {
	if p.first {
		return " FIRST"
	}
	if p.after != "" {
		return " AFTER `" + p.after + "`"
	}
	return ""
}

// target index for inserting a column given the current column names (the moved column, if
// any, already removed).
func (p position) at(names []string) int {
	if p.first {
		return 0
	}
	if p.after != "" {
		for i, n := range names {
			if n == p.after {
				return i + 1
			}
		}
	}
	return len(names)
}

// --- ADD COLUMN

type opAddColumn struct {
	col      column
	pos      position
	implicit bool // varchar without COLLATE clause: must get the table default
}

func (o opAddColumn) label() string { return "add-column" }
func (o opAddColumn) sql(t *table) string {
	return "ALTER TABLE `" + t.name + "` ADD COLUMN " + o.col.ddl(t.coll, o.implicit) + o.pos.sql()
}
func (o opAddColumn) apply(t *table) (expect, *table, string) {
	if t.colIdx(o.col.name) >= 0 {
		return mustFail, nil, "duplicate column name"
	}
	n := t.clone()
	var names []string
	for _, c := range n.cols {
		names = append(names, c.name)
	}
	at := o.pos.at(names)
	n.cols = append(n.cols[:at:at], append([]column{o.col}, n.cols[at:]...)...)
	fill := nullV()
	if o.col.def != nil {
		fill = *o.col.def
	}
	for i, r := range n.rows {
		n.rows[i] = append(r[:at:at], append([]val{fill}, r[at:]...)...)
	}
	return mustSucceed, n, ""
}

// --- DROP COLUMN

type opDropColumn struct{ name string }

func (o opDropColumn) label() string { return "drop-column" }
func (o opDropColumn) sql(t *table) string {
	return "ALTER TABLE `" + t.name + "` DROP COLUMN `" + o.name + "`"
}
func (o opDropColumn) apply(t *table) (expect, *table, string) {
	at := t.colIdx(o.name)
	if at < 0 {
		return mustFail, nil, "unknown column"
	}
	if len(t.cols) == 1 {
		return skip, nil, ""
	}
	n := t.clone()
	n.cols = append(n.cols[:at:at], n.cols[at+1:]...)
	for i, r := range n.rows {
		n.rows[i] = append(r[:at:at], r[at+1:]...)
	}
	// MySQL: the column leaves every key it was part of; a key without columns disappears; a
	// unique key that is no longer unique makes the statement fail
	n.pk = removeStr(n.pk, o.name)
	var idx []index
	for _, ix := range n.idx {
		ix.cols = removeStr(ix.cols, o.name)
		if len(ix.cols) > 0 {
			idx = append(idx, ix)
		}
	}
	n.idx = idx
	switch n.allKeysState() {
	case keyDup:
		return mustFail, nil, "a key that loses the column is no longer unique"
	case keyUndecided:
		return skip, nil, ""
	}
	return mustSucceed, n, ""
}

// --- MODIFY / CHANGE COLUMN

type opModify struct {
	name     string
	col      column // full new definition (col.name differs from name for CHANGE)
	change   bool   // CHANGE COLUMN syntax
	pos      position
	implicit bool
}

func (o opModify) label() string {
	if o.change {
		return "change-column"
	}
	return "modify-column"
}
func (o opModify) sql(t *table) string {
	if o.change {
		return "ALTER TABLE `" + t.name + "` CHANGE COLUMN `" + o.name + "` " + o.col.ddl(t.coll, o.implicit) + o.pos.sql()
	}
	return "ALTER TABLE `" + t.name + "` MODIFY COLUMN " + o.col.ddl(t.coll, o.implicit) + o.pos.sql()
}
func (o opModify) apply(t *table) (expect, *table, string) {
	at := t.colIdx(o.name)
	if at < 0 {
		return mustFail, nil, "unknown column"
	}
	if o.col.name != o.name && t.colIdx(o.col.name) >= 0 {
		return mustFail, nil, "duplicate column name"
	}
	n := t.clone()
	old := n.cols[at]
	// convert the data
	fail, undec := "", false
	for _, r := range n.rows {
		nv, vd := convert(r[at], o.col.typ)
		switch vd {
		case unrep:
			fail = fmt.Sprintf("value %s is not representable as %s", r[at].lit(), o.col.typ.text())
		case undecided:
			undec = true
		default:
			r[at] = nv
		}
		if r[at].null && o.col.notNull {
			fail = "NULL present in a column that becomes NOT NULL"
		}
	}
	if fail != "" {
		return mustFail, nil, fail
	}
	if undec {
		return skip, nil, ""
	}
	n.cols[at] = o.col
	if o.col.name != o.name {
		replaceStr(n.pk, o.name, o.col.name)
		for _, ix := range n.idx {
			replaceStr(ix.cols, o.name, o.col.name)
		}
	}
	// a collation change can merge values of a unique key: not decided here
	if old.typ.k == kStr && o.col.typ.k == kStr && old.typ.coll != o.col.typ.coll && n.inUnique(o.col.name) {
		if n.allKeysState() != keyOK {
			return skip, nil, ""
		}
	}
	if n.allKeysState() == keyDup {
		return skip, nil, "" // cannot happen with exact conversions; be safe
	}
	// move
	if o.pos.first || o.pos.after != "" {
		if o.pos.after == o.name || o.pos.after == o.col.name {
			return skip, nil, ""
		}
		c := n.cols[at]
		n.cols = append(n.cols[:at:at], n.cols[at+1:]...)
		var names []string
		for _, x := range n.cols {
			names = append(names, x.name)
		}
		to := o.pos.at(names)
		n.cols = append(n.cols[:to:to], append([]column{c}, n.cols[to:]...)...)
		for i, r := range n.rows {
			v := r[at]
			r = append(r[:at:at], r[at+1:]...)
			n.rows[i] = append(r[:to:to], append([]val{v}, r[to:]...)...)
		}
	}
	return mustSucceed, n, ""
}

// --- RENAME COLUMN

type opRenameColumn struct{ from, to string }

func (o opRenameColumn) label() string { return "rename-column" }
func (o opRenameColumn) sql(t *table) string {
	return "ALTER TABLE `" + t.name + "` RENAME COLUMN `" + o.from + "` TO `" + o.to + "`"
}
func (o opRenameColumn) apply(t *table) (expect, *table, string) {
	at := t.colIdx(o.from)
	if at < 0 {
		return mustFail, nil, "unknown column"
	}
	if t.colIdx(o.to) >= 0 {
		return mustFail, nil, "duplicate column name"
	}
	n := t.clone()
	n.cols[at].name = o.to
	replaceStr(n.pk, o.from, o.to)
	for _, ix := range n.idx {
		replaceStr(ix.cols, o.from, o.to)
	}
	return mustSucceed, n, ""
}

// --- ADD / DROP PRIMARY KEY

type opAddPK struct{ cols []string }

func (o opAddPK) label() string { return "add-primary-key" }
func (o opAddPK) sql(t *table) string {
	return "ALTER TABLE `" + t.name + "` ADD PRIMARY KEY (" + quoteList(o.cols) + ")"
}
func (o opAddPK) apply(t *table) (expect, *table, string) {
	if len(t.pk) > 0 {
		return mustFail, nil, "the table already has a primary key"
	}
	switch t.keyState(o.cols, true) {
	case keyDup:
		return mustFail, nil, "duplicate or NULL values in the new primary key"
	case keyUndecided:
		return skip, nil, ""
	}
	n := t.clone()
	n.pk = append([]string(nil), o.cols...)
	for _, c := range o.cols {
		n.cols[n.colIdx(c)].notNull = true
	}
	return mustSucceed, n, ""
}

type opDropPK struct{}

func (o opDropPK) label() string { return "drop-primary-key" }
func (o opDropPK) sql(t *table) string {
	return "ALTER TABLE `" + t.name + "` DROP PRIMARY KEY"
}
func (o opDropPK) apply(t *table) (expect, *table, string) {
	if len(t.pk) == 0 {
		return mustFail, nil, "no primary key to drop"
	}
	n := t.clone()
	n.pk = nil
	return mustSucceed, n, ""
}

// --- ADD / DROP INDEX

type opAddIndex struct{ ix index }

func (o opAddIndex) label() string {
	if o.ix.unique {
		return "add-unique"
	}
	return "add-index"
}
func (o opAddIndex) sql(t *table) string {
	k := "INDEX"
	if o.ix.unique {
		k = "UNIQUE INDEX"
	}
	return "ALTER TABLE `" + t.name + "` ADD " + k + " `" + o.ix.name + "` (" + quoteList(o.ix.cols) + ")"
}
func (o opAddIndex) apply(t *table) (expect, *table, string) {
	if t.indexNames()[o.ix.name] {
		return mustFail, nil, "duplicate index name"
	}
	if o.ix.unique {
		switch t.keyState(o.ix.cols, false) {
		case keyDup:
			return mustFail, nil, "duplicate values in the new unique key"
		case keyUndecided:
			return skip, nil, ""
		}
	}
	n := t.clone()
	n.idx = append(n.idx, index{o.ix.name, append([]string(nil), o.ix.cols...), o.ix.unique})
	return mustSucceed, n, ""
}

type opDropIndex struct{ name string }

func (o opDropIndex) label() string { return "drop-index" }
func (o opDropIndex) sql(t *table) string {
	return "ALTER TABLE `" + t.name + "` DROP INDEX `" + o.name + "`"
}
func (o opDropIndex) apply(t *table) (expect, *table, string) {
	if !t.indexNames()[o.name] {
		return mustFail, nil, "unknown index"
	}
	n := t.clone()
	var idx []index
	for _, ix := range n.idx {
		if ix.name != o.name {
			idx = append(idx, ix)
		}
	}
	n.idx = idx
	return mustSucceed, n, ""
}

// --- RENAME TABLE

type opRenameTable struct {
	to    string
	alter bool // ALTER TABLE ... RENAME TO (else RENAME TABLE)
}

func (o opRenameTable) label() string { return "rename-table" }
func (o opRenameTable) sql(t *table) string {
	if o.alter {
		return "ALTER TABLE `" + t.name + "` RENAME TO `" + o.to + "`"
	}
	return "RENAME TABLE `" + t.name + "` TO `" + o.to + "`"
}
func (o opRenameTable) apply(t *table) (expect, *table, string) {
	n := t.clone()
	n.name = o.to
	return mustSucceed, n, ""
}

// --- table default collation

type opTableCollate struct{ coll string }

func (o opTableCollate) label() string { return "table-collate" }
func (o opTableCollate) sql(t *table) string {
	return "ALTER TABLE `" + t.name + "` COLLATE " + o.coll
}
func (o opTableCollate) apply(t *table) (expect, *table, string) {
	n := t.clone()
	n.coll = o.coll // existing columns keep their collation
	return mustSucceed, n, ""
}

// --- interleaved DML

type opInsert struct {
	cols []string // column list
	vals []val
}

func (o opInsert) label() string { return "dml-insert" }
func (o opInsert) sql(t *table) string {
	return "INSERT INTO `" + t.name + "` (" + quoteList(o.cols) + ") VALUES " + rowLit(o.vals)
}
func (o opInsert) apply(t *table) (expect, *table, string) {
	n := t.clone()
	r := make([]val, len(n.cols))
	for i, c := range n.cols {
		r[i] = nullV()
		if c.def != nil {
			r[i] = *c.def
		} else if c.notNull {
			r[i] = val{k: 255} // must be given explicitly
		}
	}
	for j, c := range o.cols {
		r[n.colIdx(c)] = o.vals[j]
	}
	for i, c := range n.cols {
		if r[i].k == 255 || r[i].null && c.notNull {
			return skip, nil, ""
		}
	}
	n.rows = append(n.rows, r)
	if n.allKeysState() != keyOK {
		return skip, nil, ""
	}
	return mustSucceed, n, ""
}

type opDelete struct {
	col string
	v   val // NULL: IS NULL
}

func (o opDelete) label() string { return "dml-delete" }
func (o opDelete) sql(t *table) string {
	if o.v.null {
		return "DELETE FROM `" + t.name + "` WHERE `" + o.col + "` IS NULL"
	}
	return "DELETE FROM `" + t.name + "` WHERE `" + o.col + "` = " + o.v.lit()
}
func (o opDelete) apply(t *table) (expect, *table, string) {
	n := t.clone()
	at := n.colIdx(o.col)
	var rows [][]val
	for _, r := range n.rows {
		hit := r[at].null && o.v.null || !r[at].null && !o.v.null && r[at].rat().Cmp(o.v.rat()) == 0
		if !hit {
			rows = append(rows, r)
		}
	}
	n.rows = rows
	return mustSucceed, n, ""
}
