#!/bin/sh
# Builds the harness test binaries offline from files on disk only (warms the Go build cache).
set -e
cd "$(dirname "$0")"
. ./env.sh
cd harness
mkdir -p ../.build
"$GO" build -tags verif ./internal/... 
ls -d c[0-9]*/ | tr -d / | xargs -P 4 -I{} "$GO" test -c -tags verif -vet=off -o ../.build/{}.test ./{}
echo setup ok
