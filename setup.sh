#!/bin/sh
# Builds the harness test binaries offline from files on disk only (warms the Go build cache).
set -e
cd "$(dirname "$0")"
. ./env.sh
cd harness
mkdir -p ../.build
for pkg in $(ls -d */ | grep -v internal | tr -d /); do
  if ls $pkg/*_test.go >/dev/null 2>&1; then
    "$GO" test -c -tags verif -vet=off -o ../.build/$pkg.test ./$pkg
  fi
done
echo setup ok
