#!/bin/sh
# Builds the harness test binaries offline from files on disk only (warms the Go build cache).
# Only the packages of registered checks (cfg/_registered.json) must build; the build of a check's
# binary is repeated by ./check on every run anyway, so this step is an optimisation plus an early
# failure signal.
set -e
cd "$(dirname "$0")"
. ./env.sh
mkdir -p .build
cd harness
"$GO" build -tags verif ./internal/...
pkgs=$(python3 - <<'EOF'
import json, os
reg = json.load(open("../cfg/_registered.json"))
out = []
for pid in reg:
    c = json.load(open(f"../cfg/{pid}.json"))
    out.append(c.get("pkg", pid.lower()) + (":race" if c.get("race") else ""))
print(" ".join(sorted(set(out))))
EOF
)
fail=0
for p in $pkgs; do
  name=${p%%:*}
  if [ "${p#*:}" = "race" ]; then
    echo "$name -race"
  else
    echo "$name"
  fi
done | xargs -P 4 -L 1 sh -c '
  if [ "$2" = "-race" ]; then "$0" test -c -tags verif -vet=off -race -o ../.build/$1.race.test ./$1; else "$0" test -c -tags verif -vet=off -o ../.build/$1.test ./$1; fi' "$GO" || fail=1
[ $fail -eq 0 ] || { echo "setup: a registered package failed to build"; exit 1; }
echo setup ok
